package ekm

import (
	"testing"

	"github.com/attestantio/go-eth2-client/spec/altair"
	"github.com/attestantio/go-eth2-client/spec/bellatrix"
	"github.com/attestantio/go-eth2-client/spec/capella"
	"github.com/attestantio/go-eth2-client/spec/phase0"
	spectypes "github.com/bloxapp/ssv-spec/types"
	"github.com/herumi/bls-eth-go-binary/bls"
	"github.com/prysmaticlabs/go-bitfield"
	"github.com/stretchr/testify/require"
)

func f7Block(slot phase0.Slot, graffiti byte) *capella.BeaconBlock {
	return &capella.BeaconBlock{
		Slot: slot,
		Body: &capella.BeaconBlockBody{
			ETH1Data:          &phase0.ETH1Data{BlockHash: make([]byte, 32)},
			Graffiti:          [32]byte{graffiti},
			ProposerSlashings: []*phase0.ProposerSlashing{},
			AttesterSlashings: []*phase0.AttesterSlashing{},
			Attestations:      []*phase0.Attestation{},
			Deposits:          []*phase0.Deposit{},
			VoluntaryExits:    []*phase0.SignedVoluntaryExit{},
			SyncAggregate:     &altair.SyncAggregate{SyncCommitteeBits: bitfield.NewBitvector512()},
			ExecutionPayload: &capella.ExecutionPayload{
				ExtraData:    []byte{},
				Transactions: []bellatrix.Transaction{},
				Withdrawals:  []*capella.Withdrawal{},
			},
			BLSToExecutionChanges: []*capella.SignedBLSToExecutionChange{},
		},
	}
}

// An unreadable (empty-valued) proposal record must make the signer refuse.
// Before the fix RetrieveHighestProposal reported it as (slot 0, found, nil),
// so the signer released a second, different block for an already signed slot.
func TestF7EmptyProposalRecordRefuses(t *testing.T) {
	km := testKeyManager(t, nil)
	sk1 := &bls.SecretKey{}
	require.NoError(t, sk1.SetHexString(sk1Str))
	pk := sk1.GetPublicKey().Serialize()
	st := km.(*ethKeyManagerSigner).storage.(*storage)

	cur := st.BeaconNetwork().EstimatedCurrentSlot()
	slot := cur + 1

	_, _, err := km.(*ethKeyManagerSigner).SignBeaconObject(f7Block(slot, 1), phase0.Domain{}, pk, spectypes.DomainProposer)
	require.NoError(t, err)
	// the same slot again, another block: refused while the record is intact
	_, _, err = km.(*ethKeyManagerSigner).SignBeaconObject(f7Block(slot, 2), phase0.Domain{}, pk, spectypes.DomainProposer)
	require.Error(t, err)

	// the stored record becomes unreadable (empty value)
	require.NoError(t, st.db.Set(st.objPrefix(highestProposalPrefix), pk, []byte{}))

	_, found, rerr := st.RetrieveHighestProposal(pk)
	t.Logf("RetrieveHighestProposal on empty record: found=%v err=%v", found, rerr)
	_, _, err = km.(*ethKeyManagerSigner).SignBeaconObject(f7Block(slot, 2), phase0.Domain{}, pk, spectypes.DomainProposer)
	require.Error(t, err, "a second block for slot %d was signed although the protection record cannot be read", slot)

	// attestation side: an empty record must be an error too (not found=true, nil record, nil error)
	require.NoError(t, st.db.Set(st.objPrefix(highestAttPrefix), pk, []byte{}))
	_, _, aerr := st.RetrieveHighestAttestation(pk)
	require.Error(t, aerr)
}
