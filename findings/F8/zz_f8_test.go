package connections

import (
	"testing"

	"github.com/libp2p/go-libp2p/core/peer"
	"github.com/stretchr/testify/require"
	"go.uber.org/zap"

	"github.com/bloxapp/ssv/network/peers"
	"github.com/bloxapp/ssv/network/peers/connections/mock"
	"github.com/bloxapp/ssv/network/records"
)

// F8: a peer whose handshake metadata advertises a SHORT subnets string must not crash
// the connection handler. The string is decoded and stored by handshaker.updateNodeSubnets
// (any length is accepted) and later compared with the node's own 128 subnets in
// connHandler.sharesEnoughSubnets → records.SharedSubnets, which indexed the peer's slice
// with an index ranging over the node's own slice.
func TestF8ShortPeerSubnetsDoNotPanic(t *testing.T) {
	pid := peer.ID("2.2.2.2")
	idx := peers.NewSubnetsIndex(128)
	h := &handshaker{subnetsIdx: idx}
	// what the peer sends in its (signed, otherwise valid) node info
	h.updateNodeSubnets(zap.NewNop(), pid, &records.NodeInfo{Metadata: &records.NodeMetadata{Subnets: "ff"}})
	require.Len(t, idx.GetPeerSubnets(pid), 8, "the short subnets value was stored as received")

	mine := make(records.Subnets, 128)
	mine[100] = 1 // this node is subscribed to subnet 100
	ch := &connHandler{subnetsIndex: idx, subnetsProvider: func() records.Subnets { return mine }}
	require.NotPanics(t, func() {
		ch.sharesEnoughSubnets(zap.NewNop(), mock.Conn{MockPeerID: pid})
	})
}
