package validation

import (
	"testing"

	specqbft "github.com/bloxapp/ssv-spec/qbft"
	spectypes "github.com/bloxapp/ssv-spec/types"
	"github.com/stretchr/testify/require"

	ssvtypes "github.com/bloxapp/ssv/protocol/v2/types"
)

// F2 probe: a single-signer proposal with round 0 (or a height >= 2^63) must be
// refused or passed on without panicking: no valid signature is needed to get here.
func TestProbe_LeaderComputationDoesNotPanic(t *testing.T) {
	share := &ssvtypes.SSVShare{Share: spectypes.Share{
		Committee: []*spectypes.Operator{{OperatorID: 1}, {OperatorID: 2}, {OperatorID: 3}, {OperatorID: 4}},
		Quorum:    3, PartialQuorum: 2,
	}}
	mv := &messageValidator{}
	for _, c := range []struct {
		height specqbft.Height
		round  specqbft.Round
	}{{4, 0}, {0, 0}, {1 << 63, 1}, {^specqbft.Height(0), 1}, {0, ^specqbft.Round(0)}, {3, 1 << 63}, {1, (1 << 63) - 1}} {
		msg := &specqbft.SignedMessage{
			Signers: []spectypes.OperatorID{1},
			Message: specqbft.Message{MsgType: specqbft.ProposalMsgType, Height: c.height, Round: c.round},
		}
		require.NotPanics(t, func() { _ = mv.validConsensusSigners(share, msg) }, "height=%d round=%d", c.height, c.round)
	}
}
