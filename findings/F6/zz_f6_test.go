package records

import (
	"testing"

	"github.com/ethereum/go-ethereum/p2p/enr"
	"github.com/stretchr/testify/require"
)

// F6 probe: a peer's ENR whose "domaintype" entry is shorter than 4 bytes must be
// refused with an error, not crash the decoder.
func TestProbe_ShortDomainTypeEntryDoesNotPanic(t *testing.T) {
	for _, v := range [][]byte{{}, {1}, {1, 2, 3}} {
		var rec enr.Record
		rec.Set(enr.WithEntry("domaintype", v))
		require.NotPanics(t, func() {
			_, err := GetDomainTypeEntry(&rec)
			require.Error(t, err)
		}, "entry %x", v)
	}
	// a well-formed entry still decodes
	var rec enr.Record
	rec.Set(DomainTypeEntry{1, 2, 3, 4})
	dt, err := GetDomainTypeEntry(&rec)
	require.NoError(t, err)
	require.Equal(t, [4]byte{1, 2, 3, 4}, [4]byte(dt))
}
