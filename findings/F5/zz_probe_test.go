package storage_test

import (
	"testing"

	"github.com/ethereum/go-ethereum/common"
	"github.com/stretchr/testify/require"

	"github.com/bloxapp/ssv/logging"
	"github.com/bloxapp/ssv/registry/storage"
	"github.com/bloxapp/ssv/storage/basedb"
	"github.com/bloxapp/ssv/storage/kv"
)

// Two OperatorAdded-style saves of the same operator id: in separate
// transactions the first wins ("already exists"); inside ONE transaction the
// existence check must see the first write too.
func TestProbe_SaveOperatorData_SameIDInOneTxn(t *testing.T) {
	logger := logging.TestLogger(t)
	run := func(oneTxn bool) []byte {
		db, err := kv.NewInMemory(logger, basedb.Options{})
		require.NoError(t, err)
		defer db.Close()
		s := storage.NewOperatorsStorage(logger, db, []byte("test"))
		a := &storage.OperatorData{PublicKey: []byte("pk-A"), OwnerAddress: common.Address{1}, ID: 7}
		b := &storage.OperatorData{PublicKey: []byte("pk-B"), OwnerAddress: common.Address{2}, ID: 7}
		if oneTxn {
			txn := db.Begin()
			_, err = s.SaveOperatorData(txn, a)
			require.NoError(t, err)
			_, err = s.SaveOperatorData(txn, b)
			require.NoError(t, err)
			require.NoError(t, txn.Commit())
		} else {
			for _, od := range []*storage.OperatorData{a, b} {
				txn := db.Begin()
				_, err = s.SaveOperatorData(txn, od)
				require.NoError(t, err)
				require.NoError(t, txn.Commit())
			}
		}
		got, found, err := s.GetOperatorData(nil, 7)
		require.NoError(t, err)
		require.True(t, found)
		return got.PublicKey
	}
	require.Equal(t, string(run(false)), string(run(true)), "result depends on how the two events are batched")
}
