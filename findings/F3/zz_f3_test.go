package executionclient

import (
	"context"
	"io"
	"math/big"
	"net"
	"sync"
	"net/http/httptest"
	"strings"
	"testing"
	"time"

	"github.com/ethereum/go-ethereum/accounts/abi"
	"github.com/ethereum/go-ethereum/accounts/abi/bind"
	ethcommon "github.com/ethereum/go-ethereum/common"
	"github.com/stretchr/testify/require"
	"go.uber.org/zap/zaptest"
)

// F3 probe: a subscription failure after some blocks were delivered must not make
// StreamLogs skip the next block.
func TestProbe_StreamLogsResumeAfterSubscriptionError(t *testing.T) {
	logger := zaptest.NewLogger(t)
	ctx, cancel := context.WithTimeout(context.Background(), 20*time.Second)
	defer cancel()

	sim := simTestBackend(testAddr)
	rpcServer, _ := sim.Node.RPCHandler()
	httpsrv := httptest.NewServer(rpcServer.WebsocketHandler([]string{"*"}))
	defer rpcServer.Stop()
	defer httpsrv.Close()
	// a TCP proxy in front of the server, so that connections can be cut without stopping the server
	backend := strings.TrimPrefix(httpsrv.URL, "http://")
	ln, err := net.Listen("tcp", "127.0.0.1:0")
	require.NoError(t, err)
	defer ln.Close()
	var mu sync.Mutex
	var conns []net.Conn
	go func() {
		for {
			c, err := ln.Accept()
			if err != nil {
				return
			}
			b, err := net.Dial("tcp", backend)
			if err != nil {
				c.Close()
				continue
			}
			mu.Lock()
			conns = append(conns, c, b)
			mu.Unlock()
			go func() { _, _ = io.Copy(b, c); b.Close() }()
			go func() { _, _ = io.Copy(c, b); c.Close() }()
		}
	}()
	cut := func() {
		mu.Lock()
		for _, c := range conns {
			c.Close()
		}
		conns = nil
		mu.Unlock()
	}
	addr := "ws://" + ln.Addr().String()

	parsed, _ := abi.JSON(strings.NewReader(callableAbi))
	auth, _ := bind.NewKeyedTransactorWithChainID(testKey, big.NewInt(1337))
	contractAddr, _, contract, err := bind.DeployContract(auth, parsed, ethcommon.FromHex(callableBin), sim)
	require.NoError(t, err)
	sim.Commit()

	client, err := New(ctx, addr, contractAddr, WithLogger(logger), WithFollowDistance(0),
		WithReconnectionInitialInterval(100*time.Millisecond))
	require.NoError(t, err)

	emit := func() uint64 {
		_, err := contract.Transact(auth, "Call")
		require.NoError(t, err)
		sim.Commit()
		return sim.Blockchain.CurrentBlock().Number.Uint64()
	}

	logs := client.StreamLogs(ctx, 0)
	time.Sleep(300 * time.Millisecond) // let it subscribe
	var delivered []uint64
	next := func() BlockLogs {
		for {
			select {
			case b := <-logs:
				if len(b.Logs) > 0 {
					delivered = append(delivered, b.BlockNumber)
					return b
				}
			case <-ctx.Done():
				t.Fatalf("timeout; delivered so far: %v", delivered)
			}
		}
	}
	n1 := emit()
	require.Equal(t, n1, next().BlockNumber)

	// Drop the connection: the head subscription fails, StreamLogs reconnects.
	cut()
	time.Sleep(1500 * time.Millisecond)

	n2 := emit()
	n3 := emit()
	require.Equal(t, n1+1, n2)
	require.Equal(t, n2, next().BlockNumber, "block %d (emitted right after the reconnect) was skipped", n2)
	require.Equal(t, n3, next().BlockNumber)
}
