package instance_test

import (
	"testing"

	specqbft "github.com/bloxapp/ssv-spec/qbft"
	spectypes "github.com/bloxapp/ssv-spec/types"
	"github.com/bloxapp/ssv-spec/types/testingutils"
	"github.com/stretchr/testify/require"
	"go.uber.org/zap"

	"github.com/bloxapp/ssv/protocol/v2/qbft/instance"
	qbfttesting "github.com/bloxapp/ssv/protocol/v2/qbft/testing"
)

// F4: compaction of a decided instance changes a later output.
// Two identical instances get the same messages; B is compacted exactly where
// BaseRunner.compactInstanceIfNeeded compacts (after a round-change message).
// A broadcasts a commit on the late prepare quorum, B does not.
func TestF4CompactionChangesLaterOutput(t *testing.T) {
	logger := zap.NewNop()
	ks := testingutils.Testing4SharesSet()
	mk := func() (*instance.Instance, *testingutils.TestingNetwork) {
		cfg := qbfttesting.TestingConfig(logger, ks, spectypes.BNRoleAttester)
		net := testingutils.NewTestingNetwork()
		cfg.Network = net
		inst := instance.NewInstance(cfg, qbfttesting.TestingShare(ks), testingutils.TestingIdentifier, specqbft.FirstHeight)
		inst.Start(logger, testingutils.TestingQBFTFullData, specqbft.FirstHeight)
		return inst, net
	}
	a, netA := mk()
	b, netB := mk()

	feed := func(msg *specqbft.SignedMessage, compactB bool) {
		_, _, _, errA := a.ProcessMsg(logger, msg)
		_, _, _, errB := b.ProcessMsg(logger, msg)
		require.Equal(t, errA == nil, errB == nil)
		if compactB {
			instance.Compact(b.State, msg) // what compactInstanceIfNeeded does for a round-change message
		}
	}
	feed(testingutils.TestingProposalMessage(ks.Shares[1], 1), false)
	feed(testingutils.TestingPrepareMessage(ks.Shares[1], 1), false)
	feed(testingutils.TestingCommitMessage(ks.Shares[1], 1), false)
	feed(testingutils.TestingCommitMessage(ks.Shares[2], 2), false)
	feed(testingutils.TestingCommitMessage(ks.Shares[3], 3), false)
	da, _ := a.IsDecided()
	db, _ := b.IsDecided()
	require.True(t, da && db, "both decided on the commit quorum")

	feed(testingutils.TestingRoundChangeMessageWithRound(ks.Shares[4], 4, 2), true)
	beforeA, beforeB := len(netA.BroadcastedMsgs), len(netB.BroadcastedMsgs)
	require.Equal(t, beforeA, beforeB)

	feed(testingutils.TestingPrepareMessage(ks.Shares[2], 2), false)
	feed(testingutils.TestingPrepareMessage(ks.Shares[3], 3), false)

	t.Logf("broadcasts after the late prepares: uncompacted=%d compacted=%d", len(netA.BroadcastedMsgs)-beforeA, len(netB.BroadcastedMsgs)-beforeB)
	require.Equal(t, len(netA.BroadcastedMsgs), len(netB.BroadcastedMsgs), "compaction changed a later output: the uncompacted instance broadcast a commit on prepare quorum, the compacted one did not")
}
