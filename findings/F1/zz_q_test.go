package queue

import (
	"testing"

	"github.com/stretchr/testify/require"
)

// F1 probe: a pop whose filter admits nothing must not discard anything, and a
// pop must return an admissible message when one is queued.
func TestProbe_PopDoesNotLoseMessages(t *testing.T) {
	q := New(8)
	m1, m2, m3 := &DecodedSSVMessage{}, &DecodedSSVMessage{}, &DecodedSSVMessage{}
	q.Push(m1)
	q.Push(m2)
	q.Push(m3)
	pr := NewMessagePrioritizer(&State{})
	require.Nil(t, q.TryPop(pr, func(*DecodedSSVMessage) bool { return false }))
	require.Equal(t, 3, q.Len(), "reject-all pop discarded a message")
	only := func(m *DecodedSSVMessage) bool { return m == m1 }
	require.Equal(t, m1, q.TryPop(pr, only), "admissible message not returned")
	require.Equal(t, 2, q.Len())
}
