// Package load type-checks /repo from source and builds SSA for it, including
// the packages that are only transitively ill-typed in this sandbox
// (everything importing quic-go/internal/qtls).
package load

import (
	"fmt"
	"go/ast"
	"go/token"
	"go/types"
	"os"
	"sort"
	"strings"
	"sync"

	"golang.org/x/tools/go/packages"
	"golang.org/x/tools/go/ssa"
)

const SSVModule = "github.com/bloxapp/ssv"
const SpecModule = "github.com/bloxapp/ssv-spec"
const EKMModule = "github.com/bloxapp/eth2-key-manager"

// Program is the loaded, type-checked and SSA-converted program.
type Program struct {
	Dir      string
	Fset     *token.FileSet
	Roots    []*packages.Package          // packages matched by the patterns
	All      map[string]*packages.Package // every package in the import graph, by path
	SSA      *ssa.Program
	SSAPkgs  map[string]*ssa.Package
	Patterns []string
	// NodePkgs are the ssv packages that are part of the node (non-test,
	// non-mock, non-tooling), loaded as roots.
	NodePkgs []*packages.Package
}

// Config for Load.
type Config struct {
	Dir      string
	Patterns []string
	Tags     []string
	Overlay  map[string][]byte
	BuildAll bool // build SSA bodies for every dependency too
}

// IsSSV reports whether path is a package of the ssv module itself.
func IsSSV(path string) bool {
	return path == SSVModule || strings.HasPrefix(path, SSVModule+"/")
}

// IsNodePkg: ssv packages that are compiled into the node, i.e. not test
// helpers, mocks, spec-test drivers, e2e or integration harnesses, scripts.
func IsNodePkg(path string) bool {
	if !IsSSV(path) {
		return false
	}
	rel := strings.TrimPrefix(strings.TrimPrefix(path, SSVModule), "/")
	for _, seg := range strings.Split(rel, "/") {
		switch seg {
		case "mocks", "mock", "testing", "spectest", "e2e", "integration", "scripts", "testutils", "tests", "simulator", "simulated":
			return false
		}
	}
	return true
}

// Load loads the program. It fails (returns an error) when nothing was
// loaded or when an ssv / ssv-spec / eth2-key-manager package has a type or
// parse error of its own: the tree is then outside the "still compiles"
// premise and no verdict may be given.
func Load(c Config) (*Program, error) {
	os.Unsetenv("GOWORK")
	env := append(os.Environ(), "GOFLAGS=-mod=mod", "GOPROXY=off", "GOSUMDB=off", "GOTOOLCHAIN=local", "GOWORK=off")
	cfg := &packages.Config{
		Mode:    packages.LoadAllSyntax,
		Dir:     c.Dir,
		Env:     env,
		Tests:   false,
		Overlay: c.Overlay,
	}
	if len(c.Tags) > 0 {
		cfg.BuildFlags = []string{"-tags=" + strings.Join(c.Tags, ",")}
	}
	roots, err := packages.Load(cfg, c.Patterns...)
	if err != nil {
		return nil, fmt.Errorf("packages.Load: %w", err)
	}
	if len(roots) == 0 {
		return nil, fmt.Errorf("no packages matched %v", c.Patterns)
	}
	p := &Program{Dir: c.Dir, Roots: roots, All: map[string]*packages.Package{}, SSAPkgs: map[string]*ssa.Package{}, Patterns: c.Patterns}
	var ownErrs []string
	packages.Visit(roots, nil, func(pk *packages.Package) {
		p.All[pk.PkgPath] = pk
		if p.Fset == nil && pk.Fset != nil {
			p.Fset = pk.Fset
		}
		if IsSSV(pk.PkgPath) || strings.HasPrefix(pk.PkgPath, SpecModule) || strings.HasPrefix(pk.PkgPath, EKMModule) {
			for _, e := range pk.Errors {
				ownErrs = append(ownErrs, fmt.Sprintf("%s: %s", pk.PkgPath, e.Error()))
			}
			if pk.Types == nil || (len(pk.Syntax) == 0 && len(pk.GoFiles) > 0) {
				ownErrs = append(ownErrs, fmt.Sprintf("%s: no syntax/types", pk.PkgPath))
			}
		}
	})
	if len(ownErrs) > 0 {
		sort.Strings(ownErrs)
		if len(ownErrs) > 10 {
			ownErrs = ownErrs[:10]
		}
		return nil, fmt.Errorf("type errors in analysed packages:\n  %s", strings.Join(ownErrs, "\n  "))
	}
	nSSV := 0
	for _, r := range roots {
		if IsSSV(r.PkgPath) {
			nSSV++
			if IsNodePkg(r.PkgPath) {
				p.NodePkgs = append(p.NodePkgs, r)
			}
		}
	}
	if nSSV == 0 {
		return nil, fmt.Errorf("no ssv packages among roots %v", c.Patterns)
	}
	sort.Slice(p.NodePkgs, func(i, j int) bool { return p.NodePkgs[i].PkgPath < p.NodePkgs[j].PkgPath })

	// SSA: create every package by hand. ssautil.AllPackages would drop the
	// transitively ill-typed ones.
	prog := ssa.NewProgram(p.Fset, ssa.InstantiateGenerics)
	created := map[*types.Package]bool{}
	var paths []string
	for path := range p.All {
		paths = append(paths, path)
	}
	sort.Strings(paths)
	for _, path := range paths {
		pk := p.All[path]
		if pk.Types == nil || created[pk.Types] {
			continue
		}
		created[pk.Types] = true
		var sp *ssa.Package
		if len(pk.Errors) == 0 && pk.TypesInfo != nil && len(pk.Syntax) > 0 {
			sp = prog.CreatePackage(pk.Types, pk.Syntax, pk.TypesInfo, true)
		} else {
			sp = prog.CreatePackage(pk.Types, nil, nil, true)
		}
		p.SSAPkgs[path] = sp
	}
	// Only the analysed modules get function bodies; everything else stays a
	// declaration-only stub (much faster, and nothing outside is inspected).
	var wg sync.WaitGroup
	for _, path := range paths {
		if sp := p.SSAPkgs[path]; sp != nil && (IsSSV(path) || strings.HasPrefix(path, SpecModule) || strings.HasPrefix(path, EKMModule) || c.BuildAll) {
			wg.Add(1)
			go func(sp *ssa.Package) { defer wg.Done(); sp.Build() }(sp)
		}
	}
	wg.Wait()
	p.SSA = prog
	return p, nil
}

// Pkg returns the loaded package with the given path or nil.
func (p *Program) Pkg(path string) *packages.Package { return p.All[path] }

// LookupFunc resolves "pkgpath.Func", "pkgpath.(*T).M" or "pkgpath.T.M" to
// its types.Func through the type checker's scopes (never text search).
func (p *Program) LookupFunc(spec string) (*types.Func, error) {
	pkgPath, recv, name, err := splitSpec(spec)
	if err != nil {
		return nil, err
	}
	pk := p.All[pkgPath]
	if pk == nil || pk.Types == nil {
		return nil, fmt.Errorf("anchor %s: package %s not loaded", spec, pkgPath)
	}
	scope := pk.Types.Scope()
	if recv == "" {
		obj := scope.Lookup(name)
		f, ok := obj.(*types.Func)
		if !ok {
			return nil, fmt.Errorf("anchor %s: no such function", spec)
		}
		return f, nil
	}
	tobj, ok := scope.Lookup(recv).(*types.TypeName)
	if !ok {
		return nil, fmt.Errorf("anchor %s: no such type %s", spec, recv)
	}
	// interface method?
	if it, ok := tobj.Type().Underlying().(*types.Interface); ok {
		for i := 0; i < it.NumMethods(); i++ {
			if it.Method(i).Name() == name {
				return it.Method(i), nil
			}
		}
		return nil, fmt.Errorf("anchor %s: no such interface method", spec)
	}
	ms := types.NewMethodSet(types.NewPointer(tobj.Type()))
	for i := 0; i < ms.Len(); i++ {
		if f, ok := ms.At(i).Obj().(*types.Func); ok && f.Name() == name {
			return f, nil
		}
	}
	return nil, fmt.Errorf("anchor %s: no such method", spec)
}

// Func resolves spec to its SSA function (with body).
func (p *Program) Func(spec string) (*ssa.Function, error) {
	if i := strings.LastIndex(spec, "$"); i > 0 {
		// anonymous function N of a named function: parent$N
		par, err := p.Func(spec[:i])
		if err != nil {
			return nil, err
		}
		n := 0
		fmt.Sscanf(spec[i+1:], "%d", &n)
		if n < 1 || n > len(par.AnonFuncs) {
			return nil, fmt.Errorf("anchor %s: no such anonymous function", spec)
		}
		return par.AnonFuncs[n-1], nil
	}
	tf, err := p.LookupFunc(spec)
	if err != nil {
		return nil, err
	}
	fn := p.SSA.FuncValue(tf)
	if fn == nil {
		return nil, fmt.Errorf("anchor %s: no SSA function", spec)
	}
	if len(fn.Blocks) == 0 {
		return nil, fmt.Errorf("anchor %s: SSA function has no body", spec)
	}
	return fn, nil
}

// LookupType resolves "pkgpath.T".
func (p *Program) LookupType(spec string) (*types.TypeName, error) {
	i := strings.LastIndex(spec, ".")
	if i < 0 {
		return nil, fmt.Errorf("bad type spec %q", spec)
	}
	pk := p.All[spec[:i]]
	if pk == nil || pk.Types == nil {
		return nil, fmt.Errorf("type %s: package not loaded", spec)
	}
	t, ok := pk.Types.Scope().Lookup(spec[i+1:]).(*types.TypeName)
	if !ok {
		return nil, fmt.Errorf("type %s: not found", spec)
	}
	return t, nil
}

// LookupField resolves "pkgpath.T.field" to its types.Var.
func (p *Program) LookupField(spec string) (*types.Var, error) {
	i := strings.LastIndex(spec, ".")
	if i < 0 {
		return nil, fmt.Errorf("bad field spec %q", spec)
	}
	tn, err := p.LookupType(spec[:i])
	if err != nil {
		return nil, err
	}
	st, ok := tn.Type().Underlying().(*types.Struct)
	if !ok {
		return nil, fmt.Errorf("field %s: %s is not a struct", spec, spec[:i])
	}
	for k := 0; k < st.NumFields(); k++ {
		if st.Field(k).Name() == spec[i+1:] {
			return st.Field(k), nil
		}
	}
	return nil, fmt.Errorf("field %s: not found", spec)
}

func splitSpec(spec string) (pkg, recv, name string, err error) {
	// forms: path/to/pkg.Func | path/to/pkg.(*T).M | path/to/pkg.T.M
	slash := strings.LastIndex(spec, "/")
	rest := spec[slash+1:]
	dot := strings.Index(rest, ".")
	if dot < 0 {
		return "", "", "", fmt.Errorf("bad anchor %q", spec)
	}
	pkg = spec[:slash+1+dot]
	tail := rest[dot+1:]
	if strings.HasPrefix(tail, "(*") {
		end := strings.Index(tail, ")")
		if end < 0 || end+2 > len(tail) {
			return "", "", "", fmt.Errorf("bad anchor %q", spec)
		}
		return pkg, tail[2:end], tail[end+2:], nil
	}
	if d := strings.Index(tail, "."); d >= 0 {
		return pkg, tail[:d], tail[d+1:], nil
	}
	return pkg, "", tail, nil
}

// Pos renders a position relative to the program directory.
func (p *Program) Pos(pos token.Pos) string {
	if !pos.IsValid() {
		return "?"
	}
	ps := p.Fset.Position(pos)
	f := ps.Filename
	if strings.HasPrefix(f, p.Dir+"/") {
		f = strings.TrimPrefix(f, p.Dir+"/")
	} else if i := strings.Index(f, "/pkg/mod/"); i >= 0 {
		f = f[i+len("/pkg/mod/"):]
	}
	return fmt.Sprintf("%s:%d", f, ps.Line)
}

// SourceFuncs returns all SSA functions (including anonymous ones and
// methods) defined in the given package, sorted by position.
func (p *Program) SourceFuncs(pkgPath string) []*ssa.Function {
	sp := p.SSAPkgs[pkgPath]
	if sp == nil {
		return nil
	}
	seen := map[*ssa.Function]bool{}
	var out []*ssa.Function
	var add func(f *ssa.Function)
	add = func(f *ssa.Function) {
		if f == nil || seen[f] || len(f.Blocks) == 0 {
			return
		}
		seen[f] = true
		out = append(out, f)
		for _, a := range f.AnonFuncs {
			add(a)
		}
	}
	for _, m := range sp.Members {
		switch m := m.(type) {
		case *ssa.Function:
			add(m)
		case *ssa.Type:
			for _, t := range []types.Type{m.Type(), types.NewPointer(m.Type())} {
				ms := p.SSA.MethodSets.MethodSet(t)
				for i := 0; i < ms.Len(); i++ {
					f := p.SSA.MethodValue(ms.At(i))
					if f != nil && f.Pkg == sp && f.Synthetic == "" {
						add(f)
					}
				}
			}
		}
	}
	sort.Slice(out, func(i, j int) bool { return out[i].Pos() < out[j].Pos() })
	return out
}

// FileOf returns the *ast.File of the package containing pos.
func FileOf(pk *packages.Package, pos token.Pos) *ast.File {
	for _, f := range pk.Syntax {
		if f.Pos() <= pos && pos <= f.End() {
			return f
		}
	}
	return nil
}
