// Package core holds what every property check shares: obligations,
// verdicts, evidence and known-findings handling.
package core

import (
	"encoding/json"
	"fmt"
	"os"
	"path/filepath"
	"sort"
	"strings"
	"time"

	"verif/ssvcheck/internal/ens"
	"verif/ssvcheck/internal/load"
)

// Status of an obligation.
type Status string

const (
	Discharged   Status = "discharged"
	Violated     Status = "violated"
	Undischarged Status = "undischarged" // the obligation can no longer be stated (anchor gone, shape unknown)
)

// Obligation is one (rule, construct) pair that was decided.
type Obligation struct {
	Rule       string `json:"rule"`
	Construct  string `json:"construct"` // stable key: function + instance, never a line number
	Pos        string `json:"pos,omitempty"`
	Status     Status `json:"status"`
	Detail     string `json:"detail,omitempty"`
	Nontrivial bool   `json:"-"`
	Known      bool   `json:"known_finding,omitempty"`
}

// Ctx is handed to every property check.
type Ctx struct {
	Prop     string
	Tier     string
	P        *load.Program
	E        *ens.Engine
	Obls     []*Obligation
	Notes    []string
	Counts   map[string]int // things analysed: functions, call sites, …
	Infra    []string       // infrastructure failures (exit 2)
	Explain  string
	Trusted  []string
	Assume   []string
	RuleText []string
}

func (c *Ctx) add(o *Obligation) *Obligation {
	c.Obls = append(c.Obls, o)
	return o
}

// OK records a discharged obligation.
func (c *Ctx) OK(rule, construct, pos, detail string) {
	c.add(&Obligation{Rule: rule, Construct: construct, Pos: pos, Status: Discharged, Detail: detail, Nontrivial: true})
}

// Fail records a violated obligation.
func (c *Ctx) Fail(rule, construct, pos, detail string) {
	c.add(&Obligation{Rule: rule, Construct: construct, Pos: pos, Status: Violated, Detail: detail, Nontrivial: true})
}

// Undischarged records an obligation that cannot be stated any more.
func (c *Ctx) Undischarged(rule, construct, detail string) {
	c.add(&Obligation{Rule: rule, Construct: construct, Status: Undischarged, Detail: detail, Nontrivial: true})
}

// Decide records OK or Fail.
func (c *Ctx) Decide(ok bool, rule, construct, pos, okDetail, failDetail string) {
	if ok {
		c.OK(rule, construct, pos, okDetail)
	} else {
		c.Fail(rule, construct, pos, failDetail)
	}
}

// Count adds to a coverage counter.
func (c *Ctx) Count(what string, n int) {
	if c.Counts == nil {
		c.Counts = map[string]int{}
	}
	c.Counts[what] += n
}

// Min fails the run if fewer than min instances of a rule were found: a rule
// that matches nothing passes vacuously forever.
func (c *Ctx) Min(rule string, got, min int, what string) {
	if got < min {
		c.Undischarged(rule, "minimum-instances:"+what, fmt.Sprintf("found %d %s, hand-confirmed minimum is %d — the rule no longer sees what it was written for", got, what, min))
	} else {
		c.add(&Obligation{Rule: rule, Construct: "minimum-instances:" + what, Status: Discharged, Detail: fmt.Sprintf("%d ≥ %d", got, min)})
	}
}

// KnownFinding as stored in known_findings.json.
type KnownFinding struct {
	Property  string `json:"property"`
	Rule      string `json:"rule"`
	Construct string `json:"construct"`
	What      string `json:"what"`
}

type knownFile struct {
	Known []KnownFinding `json:"known_findings"`
	Fixed []string       `json:"fixed"`
}

// LoadKnown reads the committed known-findings file.
func LoadKnown(path string) ([]KnownFinding, error) {
	b, err := os.ReadFile(path)
	if err != nil {
		if os.IsNotExist(err) {
			return nil, nil
		}
		return nil, err
	}
	var kf knownFile
	if err := json.Unmarshal(b, &kf); err != nil {
		return nil, err
	}
	return kf.Known, nil
}

// Finish prints the verdict, writes evidence and returns the exit code.
func (c *Ctx) Finish(verifDir string, seed int64, t0 time.Time) int {
	if c.Trusted == nil {
		c.Trusted = []string{}
	}
	evPath := filepath.Join(verifDir, "evidence", c.Prop+".json")
	violPath := filepath.Join(verifDir, "evidence", c.Prop+".violations.json")
	os.MkdirAll(filepath.Dir(evPath), 0o755)
	known, err := LoadKnown(filepath.Join(verifDir, "known_findings.json"))
	if err != nil {
		c.Infra = append(c.Infra, "known_findings.json: "+err.Error())
	}
	if len(c.Infra) > 0 {
		for _, m := range c.Infra {
			fmt.Printf("INFRA-FAILURE property=%s %s\n", c.Prop, m)
		}
		os.Remove(evPath)
		return 2
	}
	var viol, knownHit []*Obligation
	discharged, nontrivial := 0, 0
	distinct := map[string]bool{}
	for _, o := range c.Obls {
		if o.Nontrivial {
			distinct[o.Rule+"|"+o.Construct] = true
		}
		switch o.Status {
		case Discharged:
			discharged++
		default:
			isKnown := false
			for _, k := range known {
				if k.Property == c.Prop && k.Rule == o.Rule && k.Construct == o.Construct {
					isKnown = true
					o.Known = true
					fmt.Printf("KNOWN-FINDING: property=%s %s %s: %s\n", c.Prop, o.Rule, o.Construct, k.What)
				}
			}
			if isKnown {
				knownHit = append(knownHit, o)
			} else {
				viol = append(viol, o)
			}
		}
	}
	nontrivial = len(distinct)
	// samples: a spread of actual obligations
	var samples []interface{}
	seenRule := map[string]int{}
	for _, o := range c.Obls {
		if seenRule[o.Rule] < 3 && o.Nontrivial {
			seenRule[o.Rule]++
			samples = append(samples, o)
		}
	}
	if len(samples) > 60 {
		samples = samples[:60]
	}
	rules := map[string]int{}
	for _, o := range c.Obls {
		rules[o.Rule]++
	}
	cov := map[string]interface{}{
		"explanation":         c.Explain,
		"obligations":         len(c.Obls),
		"discharged":          discharged,
		"evaluations":         len(c.Obls),
		"distinct_nontrivial": nontrivial,
		"rule":                "one obligation per (rule, construct) instance found in /repo's current source; non-trivial = the instance has at least one path / call site / table entry that was actually inspected (minimum-instance bookkeeping obligations are excluded); distinct = distinct (rule, construct) keys. Rules: " + strings.Join(c.RuleText, " | "),
		"samples":             samples,
		"checker_cmd":         fmt.Sprintf("./check %s %s", c.Prop, c.Tier),
		"trusted_base":        c.Trusted,
		"analysed":            c.Counts,
		"obligations_by_rule": rules,
		"known_findings_hit":  len(knownHit),
		"engine": map[string]int{
			"functions_analysed": c.E.NFuncs, "blocks": c.E.NBlocks, "cfg_edges": c.E.NEdges, "summaries": c.E.NSummaries,
			"packages_loaded": len(c.P.All), "node_packages": len(c.P.NodePkgs),
		},
		"notes": c.Notes,
	}
	if c.Assume == nil {
		c.Assume = []string{}
	}
	if c.Trusted == nil {
		c.Trusted = []string{}
	}
	if c.Notes == nil {
		c.Notes = []string{}
	}
	ev := map[string]interface{}{
		"property_id": c.Prop,
		"tier":        c.Tier,
		"seed":        seed,
		"level":       "other",
		"coverage":    cov,
		"assumptions": c.Assume,
		"wall_s":      time.Since(t0).Seconds(),
		"violations":  len(viol),
	}
	b, _ := json.MarshalIndent(ev, "", " ")
	if err := os.WriteFile(evPath, b, 0o644); err != nil {
		fmt.Printf("INFRA-FAILURE property=%s cannot write evidence: %v\n", c.Prop, err)
		return 2
	}
	if ob, err := json.MarshalIndent(map[string]interface{}{"property_id": c.Prop, "obligations": c.Obls}, "", " "); err == nil {
		_ = os.WriteFile(filepath.Join(verifDir, "evidence", c.Prop+".obligations.json"), ob, 0o644)
	}
	fmt.Printf("property=%s tier=%s obligations=%d discharged=%d violations=%d known=%d wall=%.1fs\n", c.Prop, c.Tier, len(c.Obls), discharged, len(viol), len(knownHit), time.Since(t0).Seconds())
	if len(viol) == 0 {
		os.Remove(violPath)
		return 0
	}
	sort.SliceStable(viol, func(i, j int) bool { return viol[i].Rule+viol[i].Construct < viol[j].Rule+viol[j].Construct })
	vb, _ := json.MarshalIndent(map[string]interface{}{"property_id": c.Prop, "violations": viol}, "", " ")
	os.WriteFile(violPath, vb, 0o644)
	for _, o := range viol {
		fmt.Printf("  %s %s %s [%s]: %s\n", o.Status, o.Rule, o.Pos, o.Construct, o.Detail)
	}
	fmt.Printf("VIOLATION property=%s replay=%s\n", c.Prop, violPath)
	return 1
}
