// Package patch applies a unified diff (as produced by `git diff`) to file
// contents in memory, to build a go/packages overlay: the checker can then
// analyse "the repository with this change" without touching any file.
package patch

import (
	"fmt"
	"os"
	"path/filepath"
	"strings"
)

type hunk struct {
	oldStart int
	old, new []string
}

type filePatch struct {
	path  string
	hunks []hunk
}

func parse(diff string) ([]filePatch, error) {
	var out []filePatch
	var cur *filePatch
	var h *hunk
	flush := func() {
		if h != nil && cur != nil {
			cur.hunks = append(cur.hunks, *h)
		}
		h = nil
	}
	lines := strings.Split(diff, "\n")
	for i := 0; i < len(lines); i++ {
		l := lines[i]
		switch {
		case strings.HasPrefix(l, "diff --git "):
			flush()
			if cur != nil {
				out = append(out, *cur)
			}
			cur = &filePatch{}
		case strings.HasPrefix(l, "+++ "):
			if cur == nil {
				cur = &filePatch{}
			}
			p := strings.TrimPrefix(l, "+++ ")
			p = strings.TrimPrefix(p, "b/")
			if p == "/dev/null" {
				return nil, fmt.Errorf("file deletion is not supported")
			}
			cur.path = p
		case strings.HasPrefix(l, "--- "):
			if strings.TrimPrefix(l, "--- ") == "/dev/null" {
				return nil, fmt.Errorf("file creation is not supported")
			}
		case strings.HasPrefix(l, "@@ "):
			flush()
			var os_, ol, ns, nl int
			ol, nl = 1, 1
			body := strings.TrimPrefix(l, "@@ ")
			body = body[:strings.Index(body, " @@")]
			parts := strings.Fields(body)
			if len(parts) != 2 {
				return nil, fmt.Errorf("bad hunk header %q", l)
			}
			if _, err := fmt.Sscanf(parts[0], "-%d,%d", &os_, &ol); err != nil {
				fmt.Sscanf(parts[0], "-%d", &os_)
			}
			if _, err := fmt.Sscanf(parts[1], "+%d,%d", &ns, &nl); err != nil {
				fmt.Sscanf(parts[1], "+%d", &ns)
			}
			h = &hunk{oldStart: os_}
		case h != nil && strings.HasPrefix(l, " "):
			h.old = append(h.old, l[1:])
			h.new = append(h.new, l[1:])
		case h != nil && strings.HasPrefix(l, "-"):
			h.old = append(h.old, l[1:])
		case h != nil && strings.HasPrefix(l, "+"):
			h.new = append(h.new, l[1:])
		case h != nil && l == "":
			// blank context line with the leading space trimmed by an editor, or end of diff
			if i == len(lines)-1 {
				continue
			}
			h.old = append(h.old, "")
			h.new = append(h.new, "")
		case strings.HasPrefix(l, "\\ No newline"):
		}
	}
	flush()
	if cur != nil && cur.path != "" {
		out = append(out, *cur)
	}
	return out, nil
}

func matchAt(lines, want []string, at int) bool {
	if at < 0 || at+len(want) > len(lines) {
		return false
	}
	for i, w := range want {
		if lines[at+i] != w {
			return false
		}
	}
	return true
}

// Overlay applies the diff to the files under root and returns path→content
// for every changed file. An error means the patch does not apply to this
// tree (the control is then not applicable, not failed).
func Overlay(root, diffPath string) (map[string][]byte, error) {
	b, err := os.ReadFile(diffPath)
	if err != nil {
		return nil, err
	}
	fps, err := parse(string(b))
	if err != nil {
		return nil, err
	}
	if len(fps) == 0 {
		return nil, fmt.Errorf("no file patches found in %s", diffPath)
	}
	out := map[string][]byte{}
	for _, fp := range fps {
		full := filepath.Join(root, fp.path)
		src, err := os.ReadFile(full)
		if err != nil {
			return nil, err
		}
		lines := strings.Split(string(src), "\n")
		delta := 0
		for _, h := range fp.hunks {
			// trailing empty context produced by the final newline split
			old := h.old
			at := h.oldStart - 1 + delta
			found := -1
			for d := 0; d <= 400 && found < 0; d++ {
				if matchAt(lines, old, at+d) {
					found = at + d
				} else if d > 0 && matchAt(lines, old, at-d) {
					found = at - d
				}
			}
			if found < 0 {
				return nil, fmt.Errorf("%s: hunk at line %d does not apply", fp.path, h.oldStart)
			}
			nl := append([]string{}, lines[:found]...)
			nl = append(nl, h.new...)
			nl = append(nl, lines[found+len(old):]...)
			lines = nl
			delta += len(h.new) - len(old)
		}
		out[full] = []byte(strings.Join(lines, "\n"))
	}
	return out, nil
}
