package ens

import (
	"fmt"
	"go/constant"
	"go/token"
	"go/types"
	"sort"
	"strings"

	"golang.org/x/tools/go/ssa"

	"verif/ssvcheck/internal/load"
)

// Engine holds configuration and caches shared by all analyses of a run.
type Engine struct {
	P *load.Program
	// TrueSwitch: boolean interface methods / functions treated as the
	// constant true inside the packages listed in TrueSwitchPkgs.
	TrueSwitch     map[string]bool // by FuncName
	TrueSwitchPkgs map[string]bool
	// Expand: package path prefixes whose functions may be summarised.
	Expand []string
	// ExpandFn, when set, additionally allows summarising the functions it accepts.
	ExpandFn func(*ssa.Function) bool
	MaxDepth int
	// Derived: disjunctive facts. In function Func (SSAFuncName), a set that
	// satisfies any alternative (each a conjunction of globs) also holds the
	// fact or(Name). Must be registered before the function is analysed.
	Derived []Derived

	fa     map[*ssa.Function]*FuncAnalysis
	acc    map[*ssa.Function]*Node
	pure   map[*ssa.Function][]*Node
	vh     map[*ssa.Function][]*Node
	sites  map[*ssa.Package]map[*ssa.Function]int
	sums   map[string]FactSet
	inprog map[string]bool
	// statistics
	NFuncs, NBlocks, NEdges, NSummaries int
}

func NewEngine(p *load.Program) *Engine {
	return &Engine{
		P:              p,
		TrueSwitch:     map[string]bool{},
		TrueSwitchPkgs: map[string]bool{},
		Expand:         []string{load.SSVModule, load.SpecModule, load.EKMModule},
		MaxDepth:       6,
		fa:             map[*ssa.Function]*FuncAnalysis{},
		acc:            map[*ssa.Function]*Node{},
		sums:           map[string]FactSet{},
		inprog:         map[string]bool{},
	}
}

// Derived describes a disjunctive fact, see Engine.Derived.
type Derived struct {
	Func string
	Name string
	Alts [][]string
}

func (a *FuncAnalysis) derive(fs FactSet) {
	if fs == nil {
		return
	}
	a.jointSummaries(fs)
	for _, d := range a.derived {
		key := "or(" + d.Name + ")"
		if _, ok := fs[key]; ok {
			continue
		}
		for _, alt := range d.Alts {
			all := true
			for _, g := range alt {
				if _, ok := fs.Has(g); !ok {
					all = false
					break
				}
			}
			if all {
				fs.Add(&Fact{Kind: "or", A: []*Node{mk("const", d.Name)}})
				break
			}
		}
	}
}

// jointSummaries: when a set knows both ok(call) and T/F(call#k), import the
// callee's summary for the joint exit class "rk=…,err=nil" (the decided exit
// of a (bool, value, error) function guarantees more than either alone).
func (a *FuncAnalysis) jointSummaries(fs FactSet) {
	if a.depth >= a.E.MaxDepth {
		return
	}
	var add []*Fact
	for _, f := range fs {
		if (f.Kind != "T" && f.Kind != "F") || len(f.A) != 1 || f.A[0].K != "extract" || f.A[0].A[0].K != "call" {
			continue
		}
		call := f.A[0].A[0]
		if _, ok := fs["ok("+call.String()+")"]; !ok {
			continue
		}
		mark := "joint(" + f.Key() + ")"
		if _, done := fs[mark]; done {
			continue
		}
		callee := a.calleeByNode(call)
		if callee == nil || !a.E.canExpand(callee) {
			continue
		}
		want := "true"
		if f.Kind == "F" {
			want = "false"
		}
		sum := a.E.summary(callee, "r"+f.A[0].L+"="+want+",err=nil", a.depth+1)
		add = append(add, &Fact{Kind: "joint", A: []*Node{mk("const", f.Key())}, key: mark})
		via := SSAFuncName(callee)
		for _, k := range sum.Keys() {
			add = append(add, sum[k].Subst(call.A, via))
		}
	}
	for _, f := range add {
		fs.Add(f)
	}
}

// FuncAnalysis is the result of the must-dataflow for one function.
type FuncAnalysis struct {
	E        *Engine
	Fn       *ssa.Function
	D        *describer
	In       []FactSet // facts on entry of block i (nil: unreachable)
	edge     map[[2]int]FactSet
	feas     map[[2]int]bool
	depth    int
	entry    FactSet
	derived  []Derived
	phiDepth int
}

func (e *Engine) canExpand(fn *ssa.Function) bool {
	if fn == nil || len(fn.Blocks) == 0 || fn.Pkg == nil {
		return false
	}
	path := fn.Pkg.Pkg.Path()
	for _, p := range e.Expand {
		if path == p || strings.HasPrefix(path, p+"/") {
			return true
		}
	}
	return e.ExpandFn != nil && e.ExpandFn(fn)
}

// Analyze runs (or returns the cached) analysis of fn. Anonymous functions
// are analysed in the context of their parent when they are "call-now"
// closures: free variables are described by the parent's bindings and the
// facts holding at the creation site hold on entry.
func (e *Engine) Analyze(fn *ssa.Function) *FuncAnalysis {
	return e.analyzeDepth(fn, 0)
}

func (e *Engine) analyzeDepth(fn *ssa.Function, depth int) *FuncAnalysis {
	if a, ok := e.fa[fn]; ok {
		return a
	}
	var bind []*Node
	entry := FactSet{}
	if par := fn.Parent(); par != nil {
		if mc, site := closureSite(fn); mc != nil {
			pa := e.analyzeDepth(par, depth)
			for _, b := range mc.Bindings {
				// by-reference captures: describe the variable, not a stale value
				bind = append(bind, pa.D.D(b))
			}
			if site {
				entry = pa.FactsAt(mc).Clone()
			}
		}
	}
	a := &FuncAnalysis{E: e, Fn: fn, depth: depth, entry: entry}
	a.D = newDescriber(e, fn, bind)
	for _, d := range e.Derived {
		if d.Func == SSAFuncName(fn) {
			a.derived = append(a.derived, d)
		}
	}
	e.fa[fn] = a
	a.run()
	e.NFuncs++
	e.NBlocks += len(fn.Blocks)
	return a
}

// closureSite finds the MakeClosure creating fn in its parent; callNow is
// true when the closure value is only used as an operand of a call, defer or
// go at that site (so the creation-site facts hold when it runs — for go and
// escaping closures this is still true of facts about immutable values, and
// the engine does not kill facts anyway).
func closureSite(fn *ssa.Function) (mc *ssa.MakeClosure, callNow bool) {
	par := fn.Parent()
	for _, b := range par.Blocks {
		for _, in := range b.Instrs {
			if m, ok := in.(*ssa.MakeClosure); ok && m.Fn == fn {
				return m, true
			}
		}
	}
	return nil, false
}

func (a *FuncAnalysis) pruned(b *ssa.BasicBlock) (takeTrue, takeFalse bool) {
	iff, ok := b.Instrs[len(b.Instrs)-1].(*ssa.If)
	if !ok {
		return true, true
	}
	cond := iff.Cond
	neg := false
	for {
		if u, ok := cond.(*ssa.UnOp); ok && u.Op == token.NOT {
			cond = u.X
			neg = !neg
			continue
		}
		break
	}
	val, known := false, false
	if c, ok := cond.(*ssa.Const); ok && c.Value != nil && c.Value.Kind() == constant.Bool {
		val, known = constant.BoolVal(c.Value), true
	}
	if call, ok := cond.(*ssa.Call); ok && a.Fn.Pkg != nil && a.E.TrueSwitchPkgs[a.Fn.Pkg.Pkg.Path()] {
		name := ""
		if call.Call.IsInvoke() {
			name = FuncName(call.Call.Method)
		} else if f := call.Call.StaticCallee(); f != nil {
			name = SSAFuncName(f)
		}
		if a.E.TrueSwitch[name] {
			val, known = true, true
		}
	}
	if !known {
		return true, true
	}
	if neg {
		val = !val
	}
	return val, !val
}

func (a *FuncAnalysis) run() {
	fn := a.Fn
	n := len(fn.Blocks)
	a.In = make([]FactSet, n)
	a.edge = map[[2]int]FactSet{}
	a.feas = map[[2]int]bool{}
	// edge gens and feasibility
	for _, b := range fn.Blocks {
		tt, tf := a.pruned(b)
		for si, s := range b.Succs {
			k := [2]int{b.Index, s.Index}
			feasible := true
			if _, ok := b.Instrs[len(b.Instrs)-1].(*ssa.If); ok {
				if si == 0 && !tt || si == 1 && !tf {
					feasible = false
				}
			}
			if b.Succs[0] == b.Succs[len(b.Succs)-1] && len(b.Succs) == 2 {
				feasible = true
			}
			a.feas[k] = a.feas[k] || feasible
			a.E.NEdges++
		}
	}
	a.computeEdgeGens(nil)
	a.fixpoint()
	// loop facts: a few rounds for nested loops
	for round := 0; round < 4; round++ {
		extra := a.loopFacts()
		if len(extra) == 0 {
			break
		}
		changed := false
		for k, fs := range extra {
			if a.edge[k] == nil {
				a.edge[k] = FactSet{}
			}
			for _, f := range fs {
				if _, ok := a.edge[k][f.Key()]; !ok {
					a.edge[k].Add(f)
					changed = true
				}
			}
		}
		if !changed {
			break
		}
		a.fixpoint()
	}
}

func (a *FuncAnalysis) computeEdgeGens(_ interface{}) {
	for _, b := range a.Fn.Blocks {
		iff, ok := b.Instrs[len(b.Instrs)-1].(*ssa.If)
		if !ok || len(b.Succs) != 2 || b.Succs[0] == b.Succs[1] {
			continue
		}
		for si, s := range b.Succs {
			k := [2]int{b.Index, s.Index}
			fs := FactSet{}
			for _, f := range a.condFacts(iff.Cond, si == 0) {
				fs.Add(f)
				a.expandFact(f, fs)
			}
			a.edge[k] = fs
		}
	}
}

// blockOut: facts at the end of block b (entry facts + events inside).
func (a *FuncAnalysis) blockOut(b *ssa.BasicBlock) FactSet {
	in := a.In[b.Index]
	if in == nil {
		return nil
	}
	out := in.Clone()
	for _, ins := range b.Instrs {
		a.events(ins, out)
	}
	return out
}

func (a *FuncAnalysis) fixpoint() {
	fn := a.Fn
	for i := range a.In {
		a.In[i] = nil
	}
	a.In[0] = a.entry.Clone()
	outs := make([]FactSet, len(fn.Blocks))
	dirty := true
	for iter := 0; dirty && iter < 200; iter++ {
		dirty = false
		for _, b := range fn.Blocks { // block order is roughly RPO already
			if b.Index != 0 {
				var in FactSet
				var predSets []FactSet
				reached := false
				for _, p := range b.Preds {
					k := [2]int{p.Index, b.Index}
					if !a.feas[k] || outs[p.Index] == nil {
						continue
					}
					s := outs[p.Index]
					if g := a.edge[k]; len(g) > 0 || len(a.derived) > 0 {
						s = s.Clone()
						for _, f := range g {
							s.Add(f)
						}
						activateGuarded(s)
						a.derive(s)
					}
					predSets = append(predSets, s)
					if !reached {
						in = s.Clone()
						reached = true
					} else {
						in = Intersect(in, s)
					}
				}
				if !reached {
					continue
				}
				if len(predSets) > 1 {
					addGuarded(in, predSets)
				}
				if !equalSets(in, a.In[b.Index]) {
					a.In[b.Index] = in
					dirty = true
				}
			}
			o := a.blockOut(b)
			if !equalSets(o, outs[b.Index]) {
				outs[b.Index] = o
				dirty = true
			}
		}
	}
}

// addGuarded: at a merge the plain intersection forgets what only SOME
// predecessors know. When the predecessors split on an atom c (some carry c,
// all others its complement), what all c-predecessors agree on is kept as the
// guarded fact when(c ⇒ f). A later edge that establishes c again (the same
// field re-tested by the next case of a switch, a flag checked after an early
// return was merged back) re-activates f. This makes an if-chain and its
// switch / early-return rewrites yield the same facts.
func addGuarded(in FactSet, preds []FactSet) {
	// candidate discriminators: atoms of the first predecessor not in the intersection
	const maxPerMerge = 48
	added := 0
	tried := map[string]bool{}
	for _, ps := range preds {
		for _, k := range ps.Keys() { // sorted: the cap must cut deterministically
			c := ps[k]
			if tried[k] || added >= maxPerMerge {
				continue
			}
			if _, common := in[k]; common {
				continue
			}
			comp := c.Complement()
			if comp == "" || c.Kind == "when" {
				continue
			}
			tried[k] = true
			// every predecessor must carry c or its complement
			var with []FactSet
			split, nComp := true, 0
			for _, q := range preds {
				if _, ok := q[k]; ok {
					with = append(with, q)
				} else if _, ok := q[comp]; ok {
					nComp++
				} else {
					split = false
					break
				}
			}
			if !split || nComp == 0 || len(with) == 0 {
				continue
			}
			agree := with[0]
			for _, q := range with[1:] {
				agree = Intersect(agree, q)
			}
			for _, fk := range agree.Keys() {
				f := agree[fk]
				if fk == k || f.Kind == "when" || f.Kind == "called" || f.Kind == "joint" {
					continue
				}
				if _, common := in[fk]; common {
					continue
				}
				in.Add(&Fact{Kind: "when", If: c, Sub: f})
				added++
				if added >= maxPerMerge {
					break
				}
			}
		}
	}
}

// activateGuarded adds the consequents of the guarded facts whose antecedent
// holds in s.
func activateGuarded(s FactSet) {
	for changed := true; changed; {
		changed = false
		for _, f := range s {
			if f.Kind != "when" {
				continue
			}
			if _, ok := s[f.If.Key()]; !ok {
				continue
			}
			if _, ok := s[f.Sub.Key()]; !ok {
				s[f.Sub.Key()] = f.Sub
				changed = true
			}
		}
	}
}

// loopFacts: for every loop header H (a block with a back edge S→H where H
// dominates S) the facts that hold at the end of every iteration but not on
// loop entry become forall(fact) on the header's exit edges.
func (a *FuncAnalysis) loopFacts() map[[2]int][]*Fact {
	res := map[[2]int][]*Fact{}
	for _, h := range a.Fn.Blocks {
		var backs []*ssa.BasicBlock
		for _, p := range h.Preds {
			if h.Dominates(p) {
				backs = append(backs, p)
			}
		}
		if len(backs) == 0 || a.In[h.Index] == nil {
			continue
		}
		var per FactSet
		first := true
		for _, s := range backs {
			if a.In[s.Index] == nil {
				continue
			}
			o := a.blockOut(s)
			for _, f := range a.edge[[2]int{s.Index, h.Index}] {
				o.Add(f)
			}
			if first {
				per, first = o, false
			} else {
				per = Intersect(per, o)
			}
		}
		if per == nil {
			continue
		}
		// loop body = blocks dominated by h that can reach a back edge source
		inLoop := map[int]bool{h.Index: true}
		var work []*ssa.BasicBlock
		for _, s := range backs {
			if !inLoop[s.Index] {
				inLoop[s.Index] = true
				work = append(work, s)
			}
		}
		for len(work) > 0 {
			b := work[len(work)-1]
			work = work[:len(work)-1]
			for _, p := range b.Preds {
				if !inLoop[p.Index] && h.Dominates(p) {
					inLoop[p.Index] = true
					work = append(work, p)
				}
			}
		}
		hin := a.In[h.Index]
		for _, x := range h.Succs {
			if inLoop[x.Index] {
				continue
			}
			k := [2]int{h.Index, x.Index}
			for _, key := range per.Keys() {
				if _, ok := hin[key]; ok {
					continue
				}
				f := per[key]
				res[k] = append(res[k], &Fact{Kind: "forall", Sub: f})
			}
		}
	}
	return res
}

// events adds the facts generated by executing ins (calls made, stores,
// receives) to fs.
func (a *FuncAnalysis) events(ins ssa.Instruction, fs FactSet) {
	switch ins := ins.(type) {
	case *ssa.Call:
		n := a.D.D(ins)
		fs.Add(&Fact{Kind: "called", A: []*Node{n}})
		// a helper without results cannot be "ok": what holds at every one of its exits
		// holds after the call (its effects and calls become the caller's)
		if callee := ins.Call.StaticCallee(); callee != nil && n.K == "call" && a.depth < a.E.MaxDepth &&
			callee.Signature.Results().Len() == 0 && callee.Parent() == nil && a.E.canExpand(callee) {
			sum := a.E.summary(callee, "any", a.depth+1)
			via := SSAFuncName(callee)
			for _, k := range sum.Keys() {
				fs.Add(sum[k].Subst(n.A, via))
			}
		}
	case *ssa.Defer:
		fs.Add(&Fact{Kind: "deferred", A: []*Node{a.D.call(&ins.Call)}})
	case *ssa.Go:
		fs.Add(&Fact{Kind: "go", A: []*Node{a.D.call(&ins.Call)}})
	case *ssa.Store:
		if baseIsFresh(ins.Addr) {
			return // initialising a fresh composite value is not an observable effect
		}
		switch ins.Addr.(type) {
		case *ssa.FieldAddr, *ssa.Global, *ssa.FreeVar:
			fs.Add(&Fact{Kind: "stored", A: []*Node{a.D.D(ins.Addr), a.D.D(ins.Val)}})
		case *ssa.IndexAddr:
			fs.Add(&Fact{Kind: "stored", A: []*Node{a.D.D(ins.Addr), a.D.D(ins.Val)}})
		}
	case *ssa.MapUpdate:
		fs.Add(&Fact{Kind: "mapset", A: []*Node{a.D.D(ins.Map), a.D.D(ins.Key), a.D.D(ins.Value)}})
	case *ssa.UnOp:
		if ins.Op == token.ARROW {
			fs.Add(&Fact{Kind: "received", A: []*Node{a.D.D(ins.X)}})
		}
	case *ssa.Send:
		fs.Add(&Fact{Kind: "sent", A: []*Node{a.D.D(ins.Chan), a.D.D(ins.X)}})
	}
}

// FactsAt returns the facts holding immediately before ins executes.
func (a *FuncAnalysis) FactsAt(ins ssa.Instruction) FactSet {
	b := ins.Block()
	in := a.In[b.Index]
	if in == nil {
		return nil
	}
	out := in.Clone()
	for _, x := range b.Instrs {
		if x == ins {
			break
		}
		a.events(x, out)
	}
	return out
}

func isErrorType(t types.Type) bool {
	if t == nil {
		return false
	}
	if n, ok := t.(*types.Named); ok && n.Obj().Pkg() == nil && n.Obj().Name() == "error" {
		return true
	}
	return false
}

func isNilConst(v ssa.Value) bool {
	c, ok := v.(*ssa.Const)
	return ok && c.Value == nil && !isZeroAggregate(c)
}

func isZeroAggregate(c *ssa.Const) bool {
	switch c.Type().Underlying().(type) {
	case *types.Struct, *types.Array:
		return true
	}
	return false
}

// callOf: if v is (an extract of) a call, return that call.
func callOf(v ssa.Value) *ssa.Call {
	switch v := v.(type) {
	case *ssa.Call:
		return v
	case *ssa.Extract:
		if c, ok := v.Tuple.(*ssa.Call); ok {
			return c
		}
	case *ssa.ChangeInterface:
		return callOf(v.X)
	case *ssa.MakeInterface:
		return callOf(v.X)
	case *ssa.TypeAssert:
		return callOf(v.X)
	}
	return nil
}

// condFacts turns a branch condition with polarity into facts.
func (a *FuncAnalysis) condFacts(c ssa.Value, pol bool) []*Fact {
	switch v := c.(type) {
	case *ssa.UnOp:
		if v.Op == token.NOT {
			return a.condFacts(v.X, !pol)
		}
	case *ssa.BinOp:
		op := v.Op
		if !pol {
			switch op {
			case token.EQL:
				op = token.NEQ
			case token.NEQ:
				op = token.EQL
			case token.LSS:
				op = token.GEQ
			case token.LEQ:
				op = token.GTR
			case token.GTR:
				op = token.LEQ
			case token.GEQ:
				op = token.LSS
			default:
				return []*Fact{{Kind: "F", A: []*Node{a.D.D(c)}}}
			}
		}
		x, y := v.X, v.Y
		switch op {
		case token.EQL, token.NEQ:
			// nil tests
			if isNilConst(x) {
				x, y = y, x
			}
			if isNilConst(y) {
				if isErrorType(x.Type()) && callOf(x) != nil {
					k := "ok"
					if op == token.NEQ {
						k = "fail"
					}
					return []*Fact{{Kind: k, A: []*Node{a.D.D(callOf(x))}}, a.nilFact(x, op == token.EQL)}
				}
				return []*Fact{a.nilFact(x, op == token.EQL)}
			}
			k := "eq"
			if op == token.NEQ {
				k = "ne"
			}
			f := &Fact{Kind: k, A: []*Node{a.D.D(x), a.D.D(y)}}
			orderPair(f)
			return []*Fact{f}
		case token.LSS:
			return []*Fact{{Kind: "lt", A: []*Node{a.D.D(x), a.D.D(y)}}}
		case token.LEQ:
			return []*Fact{{Kind: "le", A: []*Node{a.D.D(x), a.D.D(y)}}}
		case token.GTR:
			return []*Fact{{Kind: "lt", A: []*Node{a.D.D(y), a.D.D(x)}}}
		case token.GEQ:
			return []*Fact{{Kind: "le", A: []*Node{a.D.D(y), a.D.D(x)}}}
		}
	}
	k := "T"
	if !pol {
		k = "F"
	}
	out := []*Fact{{Kind: k, A: []*Node{a.D.D(c)}}}
	// short-circuit values: x := a && b is φ(false, b); knowing x is true means the
	// b-edge was taken, so b holds and so does every branch condition on the
	// single-predecessor chain leading to that edge (here: a). Dually for ||.
	if phi, ok := c.(*ssa.Phi); ok && a.phiDepth < 4 {
		cand := -1
		for i, e := range phi.Edges {
			if cst, isC := e.(*ssa.Const); isC && cst.Value != nil && cst.Value.Kind() == constant.Bool && constant.BoolVal(cst.Value) != pol {
				continue // this edge cannot produce the observed value
			}
			if cand >= 0 {
				cand = -2
				break
			}
			cand = i
		}
		if cand >= 0 && cand < len(phi.Block().Preds) {
			a.phiDepth++
			if _, isC := phi.Edges[cand].(*ssa.Const); !isC {
				out = append(out, a.condFacts(phi.Edges[cand], pol)...)
			}
			b := phi.Block().Preds[cand]
			for depth := 0; depth < 8 && len(b.Preds) == 1; depth++ {
				q := b.Preds[0]
				if iff, ok := q.Instrs[len(q.Instrs)-1].(*ssa.If); ok && len(q.Succs) == 2 && q.Succs[0] != q.Succs[1] {
					out = append(out, a.condFacts(iff.Cond, q.Succs[0] == b)...)
				}
				b = q
			}
			a.phiDepth--
		}
		// the other polarity of a short-circuit value: x := a && b known FALSE (x := a || b known
		// TRUE) is a disjunction; it becomes definite as soon as the other operand is known:
		// when(a ⇒ ¬b) and when(b ⇒ ¬a) (dually for ||). A later re-test of a — the next case of
		// a switch over the same flags — then yields ¬b.
		if cand == -2 && len(phi.Edges) == 2 && a.phiDepth < 4 {
			ci := -1
			for i, e := range phi.Edges {
				if cst, isC := e.(*ssa.Const); isC && cst.Value != nil && cst.Value.Kind() == constant.Bool && constant.BoolVal(cst.Value) == pol {
					ci = i
				}
			}
			if ci >= 0 {
				if _, otherConst := phi.Edges[1-ci].(*ssa.Const); !otherConst && ci < len(phi.Block().Preds) {
					pc := phi.Block().Preds[ci]
					if iff, ok := pc.Instrs[len(pc.Instrs)-1].(*ssa.If); ok && len(pc.Succs) == 2 && pc.Succs[0] != pc.Succs[1] {
						toRHS := pc.Succs[0] != phi.Block() // polarity of a that evaluates the right operand
						a.phiDepth++
						aRHS := a.condFacts(iff.Cond, toRHS)
						aConst := a.condFacts(iff.Cond, !toRHS)
						bPol := a.condFacts(phi.Edges[1-ci], pol)
						bNot := a.condFacts(phi.Edges[1-ci], !pol)
						a.phiDepth--
						if len(aRHS) > 0 && len(bNot) > 0 {
							for _, f := range bPol {
								out = append(out, &Fact{Kind: "when", If: aRHS[0], Sub: f})
							}
							for _, f := range aConst {
								out = append(out, &Fact{Kind: "when", If: bNot[0], Sub: f})
							}
						}
					}
				}
			}
		}
	}
	return out
}

func (a *FuncAnalysis) nilFact(x ssa.Value, isNil bool) *Fact {
	k := "isnil"
	if !isNil {
		k = "nonnil"
	}
	return &Fact{Kind: k, A: []*Node{a.D.D(x)}}
}

// expandFact imports the summary of a callee whose success/true/false
// outcome is established by f.
func (a *FuncAnalysis) expandFact(f *Fact, into FactSet) {
	if a.depth >= a.E.MaxDepth || len(f.A) != 1 {
		return
	}
	var spec string
	switch f.Kind {
	case "ok":
		spec = "err=nil"
	case "T":
		spec = "ret=true"
	case "F":
		spec = "ret=false"
	default:
		return
	}
	n := f.A[0]
	if n.K == "extract" && len(n.A) == 1 { // T(call#k): the k-th result is true
		if f.Kind == "ok" {
			return
		}
		spec = "r" + n.L + strings.TrimPrefix(spec, "ret")
		n = n.A[0]
	}
	if n.K != "call" {
		return
	}
	callee := a.calleeByNode(n)
	if callee == nil || !a.E.canExpand(callee) {
		return
	}
	sum := a.E.summary(callee, spec, a.depth+1)
	via := SSAFuncName(callee)
	for _, k := range sum.Keys() {
		into.Add(sum[k].Subst(n.A, via))
	}
	a.deriveThrough(callee, spec, n.A, via, into)
}

// deriveThrough: a derived disjunction of THIS function also holds after a
// successful call of a helper when every exit of the helper (of the
// established class), rebound to the call's arguments, satisfies one of its
// alternatives. The plain summary cannot carry this: it is the intersection
// of the exits, and a disjunction lives in their differences. This is what
// keeps "extract these guards into a helper" from losing an or-fact.
func (a *FuncAnalysis) deriveThrough(callee *ssa.Function, spec string, args []*Node, via string, into FactSet) {
	if len(a.derived) == 0 || a.depth >= a.E.MaxDepth {
		return
	}
	key := callee.String() + "|" + spec
	if a.E.inprog[key] {
		return
	}
	pending := false
	for _, d := range a.derived {
		if _, ok := into["or("+d.Name+")"]; !ok {
			pending = true
		}
	}
	if !pending {
		return
	}
	a.E.inprog[key] = true
	defer delete(a.E.inprog, key)
	ca := a.E.analyzeDepth(callee, a.depth+1)
	exits, err := ca.Exits(spec)
	if err != nil || len(exits) == 0 || len(exits) > 64 {
		return
	}
	var sets []FactSet
	for _, ex := range exits {
		fs := into.Clone() // what the caller already knows also holds
		for _, f := range ex.Facts {
			if mentionsLocalOnly(f) {
				continue
			}
			fs.Add(f.Subst(args, via))
		}
		sets = append(sets, fs)
	}
	for _, d := range a.derived {
		k := "or(" + d.Name + ")"
		if _, ok := into[k]; ok {
			continue
		}
		all := true
		for _, fs := range sets {
			sat := false
			for _, alt := range d.Alts {
				okAlt := true
				for _, g := range alt {
					if _, ok := fs.Has(g); !ok {
						okAlt = false
						break
					}
				}
				if okAlt {
					sat = true
					break
				}
			}
			if !sat {
				all = false
				break
			}
		}
		if all {
			into.Add(&Fact{Kind: "or", A: []*Node{mk("const", d.Name)}, Via: via})
		}
	}
}

func (a *FuncAnalysis) calleeByNode(n *Node) *ssa.Function {
	f, _ := n.Fn.(*ssa.Function)
	return f
}

// ---------------------------------------------------------------- exits

// Exit is one way of leaving the function with the requested result class.
type Exit struct {
	Ret   *ssa.Return
	Pred  *ssa.BasicBlock // non-nil when the exit is the edge Pred→Ret.Block() (φ-resolved)
	Facts FactSet
	Note  string
}

type tri int

const (
	no tri = iota
	yes
	maybe
)

// ExitSpec: "err=nil" (last result is a nil error), "ret=true"/"ret=false"
// (single or first bool result), "rK=true|false|nil|nonnil" for result K;
// several clauses joined by ",". "any" selects every return.
type clause struct {
	idx  int // -1 = error result (last), -2 = first result
	want string
}

func parseSpec(spec string, sig *types.Signature) ([]clause, error) {
	var out []clause
	if spec == "any" || spec == "" {
		return nil, nil
	}
	for _, part := range strings.Split(spec, ",") {
		kv := strings.SplitN(strings.TrimSpace(part), "=", 2)
		if len(kv) != 2 {
			return nil, fmt.Errorf("bad exit spec %q", spec)
		}
		c := clause{want: kv[1]}
		switch {
		case kv[0] == "err":
			c.idx = sig.Results().Len() - 1
		case kv[0] == "ret":
			c.idx = 0
		case strings.HasPrefix(kv[0], "r"):
			c.idx = atoi(kv[0][1:])
		default:
			return nil, fmt.Errorf("bad exit spec %q", spec)
		}
		if c.idx < 0 || c.idx >= sig.Results().Len() {
			return nil, fmt.Errorf("exit spec %q: result index out of range for %s", spec, sig)
		}
		out = append(out, c)
	}
	return out, nil
}

// Exits enumerates the exits of the function matching spec, with the facts
// holding on each (including facts implied by the returned operands).
func (a *FuncAnalysis) Exits(spec string) ([]*Exit, error) {
	cls, err := parseSpec(spec, a.Fn.Signature)
	if err != nil {
		return nil, err
	}
	var exits []*Exit
	for _, b := range a.Fn.Blocks {
		ret, ok := b.Instrs[len(b.Instrs)-1].(*ssa.Return)
		if !ok || a.In[b.Index] == nil {
			continue
		}
		// do any of the needed operands come from φ-nodes of this block?
		phiHere := false
		for _, c := range cls {
			if p, ok := stripIface(ret.Results[c.idx]).(*ssa.Phi); ok && p.Block() == b {
				phiHere = true
			}
		}
		if !phiHere || len(b.Preds) == 0 {
			facts := a.FactsAt(ret)
			a.derive(facts)
			if ex := a.classifyExit(ret, nil, facts, cls); ex != nil {
				exits = append(exits, ex)
			}
			continue
		}
		for _, p := range b.Preds {
			k := [2]int{p.Index, b.Index}
			if !a.feas[k] || a.In[p.Index] == nil {
				continue
			}
			facts := a.blockOut(p)
			for _, f := range a.edge[k] {
				facts.Add(f)
			}
			// events of the return block itself
			for _, x := range b.Instrs {
				a.events(x, facts)
			}
			activateGuarded(facts)
			a.derive(facts)
			if ex := a.classifyExit(ret, p, facts, cls); ex != nil {
				exits = append(exits, ex)
			}
		}
	}
	return exits, nil
}

func stripIface(v ssa.Value) ssa.Value {
	for {
		switch x := v.(type) {
		case *ssa.ChangeInterface:
			v = x.X
		default:
			return v
		}
	}
}

func (a *FuncAnalysis) classifyExit(ret *ssa.Return, pred *ssa.BasicBlock, facts FactSet, cls []clause) *Exit {
	ex := &Exit{Ret: ret, Pred: pred, Facts: facts}
	for _, c := range cls {
		v := stripIface(ret.Results[c.idx])
		if p, ok := v.(*ssa.Phi); ok && pred != nil && p.Block() == ret.Block() {
			for i, pp := range ret.Block().Preds {
				if pp == pred {
					v = stripIface(p.Edges[i])
				}
			}
		}
		r, extra := a.classify(v, c.want, facts, 0)
		if r == no {
			return nil
		}
		for _, f := range extra {
			facts.Add(f)
			a.expandFact(f, facts)
		}
	}
	return ex
}

var nonNilErrorMakers = map[string]bool{
	"github.com/pkg/errors.New":    true,
	"github.com/pkg/errors.Errorf": true,
	"errors.New":                   true,
	"fmt.Errorf":                   true,
}

var errorWrappers = map[string]bool{
	"github.com/pkg/errors.Wrap":         true,
	"github.com/pkg/errors.Wrapf":        true,
	"github.com/pkg/errors.WithMessage":  true,
	"github.com/pkg/errors.WithMessagef": true,
	"github.com/pkg/errors.WithStack":    true,
}

// classify decides whether value v can belong to class want
// (nil|nonnil|true|false) given the facts; extra facts are those that must
// additionally hold for it to belong (e.g. ok(g) for a tail call of g).
func (a *FuncAnalysis) classify(v ssa.Value, want string, facts FactSet, depth int) (tri, []*Fact) {
	v = stripIface(v)
	if depth > 6 {
		return maybe, nil
	}
	flip := func(t tri) tri {
		switch t {
		case yes:
			return no
		case no:
			return yes
		}
		return maybe
	}
	switch want {
	case "nonnil":
		t, _ := a.classify(v, "nil", facts, depth)
		return flip(t), nil
	case "false":
		if u, ok := v.(*ssa.UnOp); ok && u.Op == token.NOT {
			return a.classify(u.X, "true", facts, depth+1)
		}
	case "true":
		if u, ok := v.(*ssa.UnOp); ok && u.Op == token.NOT {
			return a.classify(u.X, "false", facts, depth+1)
		}
	}
	switch want {
	case "nil":
		switch x := v.(type) {
		case *ssa.Const:
			if x.Value == nil {
				return yes, nil
			}
			return no, nil
		case *ssa.MakeInterface:
			// a concrete value boxed into an interface is never a nil interface
			return no, nil
		case *ssa.Alloc, *ssa.MakeClosure, *ssa.MakeMap, *ssa.MakeSlice, *ssa.MakeChan, *ssa.FieldAddr, *ssa.IndexAddr, *ssa.Function:
			return no, nil
		case *ssa.Phi:
			// φ defined elsewhere: nil iff all edges nil; cannot tell which edge
			allYes, allNo := true, true
			for _, e := range x.Edges {
				t, _ := a.classify(e, "nil", facts, depth+1)
				if t != yes {
					allYes = false
				}
				if t != no {
					allNo = false
				}
			}
			if allYes {
				return yes, nil
			}
			if allNo {
				return no, nil
			}
			return a.byFacts(v, want, facts)
		case *ssa.Call:
			if f := x.Call.StaticCallee(); f != nil {
				name := f.String()
				if nonNilErrorMakers[name] {
					return no, nil
				}
				if errorWrappers[name] && len(x.Call.Args) > 0 {
					return a.classify(x.Call.Args[0], "nil", facts, depth+1)
				}
			}
		case *ssa.UnOp:
			if x.Op == token.MUL {
				// load of a local: classify the reaching store's value
				if st := a.D.reachingStore(x, x.X); st != nil {
					return a.classify(st.Val, want, facts, depth+1)
				}
				// sentinel error variables (var ErrX = errors.New(..)) are never nil
				if g, ok := x.X.(*ssa.Global); ok && isErrorType(x.Type()) && sentinelError(g) {
					return no, nil
				}
			}
		case *ssa.TypeAssert:
			if !x.CommaOk {
				return a.classify(x.X, want, facts, depth+1)
			}
		}
		if t, ok := a.byFactsKnown(v, want, facts); ok {
			return t, nil
		}
		// untested result of a call: nil iff the callee succeeded
		if c := callOf(v); c != nil && isErrorType(v.Type()) {
			return maybe, []*Fact{{Kind: "ok", A: []*Node{a.D.D(c)}}}
		}
		return maybe, nil
	case "true", "false":
		wantTrue := want == "true"
		switch x := v.(type) {
		case *ssa.Const:
			if x.Value != nil && x.Value.Kind() == constant.Bool {
				if constant.BoolVal(x.Value) == wantTrue {
					return yes, nil
				}
				return no, nil
			}
		case *ssa.Phi:
			allYes, allNo := true, true
			for _, e := range x.Edges {
				t, _ := a.classify(e, want, facts, depth+1)
				if t != yes {
					allYes = false
				}
				if t != no {
					allNo = false
				}
			}
			if allYes {
				return yes, nil
			}
			if allNo {
				return no, nil
			}
		case *ssa.UnOp:
			if x.Op == token.MUL {
				if st := a.D.reachingStore(x, x.X); st != nil {
					return a.classify(st.Val, want, facts, depth+1)
				}
			}
		}
		if t, ok := a.byFactsKnown(v, want, facts); ok {
			return t, nil
		}
		// the returned condition itself becomes a fact of this exit
		return maybe, a.condFacts(v, wantTrue)
	}
	return maybe, nil
}

func (a *FuncAnalysis) byFacts(v ssa.Value, want string, facts FactSet) (tri, []*Fact) {
	if t, ok := a.byFactsKnown(v, want, facts); ok {
		return t, nil
	}
	return maybe, nil
}

func (a *FuncAnalysis) byFactsKnown(v ssa.Value, want string, facts FactSet) (tri, bool) {
	d := a.D.D(v).String()
	// A fact imported from a callee's summary may talk about a different
	// dynamic call that merely renders the same; when a local edge fact and an
	// imported one contradict each other, the local one is about this value.
	has := func(k string) bool { _, ok := facts[k]; return ok }
	local := func(k string) bool { f, ok := facts[k]; return ok && f.Via == "" }
	pair := func(pos, neg string) (tri, bool) {
		p, n := has(pos), has(neg)
		switch {
		case p && n:
			if local(pos) && !local(neg) {
				return yes, true
			}
			if local(neg) && !local(pos) {
				return no, true
			}
			return maybe, false
		case p:
			return yes, true
		case n:
			return no, true
		}
		return maybe, false
	}
	switch want {
	case "nil":
		return pair("isnil("+d+")", "nonnil("+d+")")
	case "true":
		return pair("T("+d+")", "F("+d+")")
	case "false":
		return pair("F("+d+")", "T("+d+")")
	}
	_ = has
	switch want {
	case "nil":
		if has("isnil(" + d + ")") {
			return yes, true
		}
		if has("nonnil(" + d + ")") {
			return no, true
		}
	case "true":
		if has("T(" + d + ")") {
			return yes, true
		}
		if has("F(" + d + ")") {
			return no, true
		}
	case "false":
		if has("F(" + d + ")") {
			return yes, true
		}
		if has("T(" + d + ")") {
			return no, true
		}
	}
	return maybe, false
}

// Ens returns the facts common to all exits matching spec, and the exits.
func (a *FuncAnalysis) Ens(spec string) (FactSet, []*Exit, error) {
	exits, err := a.Exits(spec)
	if err != nil {
		return nil, nil, err
	}
	var res FactSet
	first := true
	for _, ex := range exits {
		if first {
			res, first = ex.Facts.Clone(), false
		} else {
			res = Intersect(res, ex.Facts)
		}
	}
	if first {
		return FactSet{}, nil, nil
	}
	return res, exits, nil
}

func (e *Engine) summary(fn *ssa.Function, spec string, depth int) FactSet {
	key := fn.String() + "|" + spec
	if s, ok := e.sums[key]; ok {
		return s
	}
	if e.inprog[key] {
		return nil
	}
	// anonymous functions depend on their parent's context: no summaries
	e.inprog[key] = true
	defer delete(e.inprog, key)
	sig := fn.Signature
	if sig.Results().Len() == 0 && spec != "any" {
		return nil
	}
	// adapt spec to the signature
	switch spec {
	case "err=nil":
		if !isErrorType(sig.Results().At(sig.Results().Len() - 1).Type()) {
			return nil
		}
	case "ret=true", "ret=false":
		if b, ok := sig.Results().At(0).Type().Underlying().(*types.Basic); !ok || b.Kind() != types.Bool {
			return nil
		}
	}
	a := e.analyzeDepth(fn, depth)
	facts, exits, err := a.Ens(spec)
	if err != nil || len(exits) == 0 {
		e.sums[key] = FactSet{}
		return e.sums[key]
	}
	// keep only facts expressible in terms of the callee's parameters
	out := FactSet{}
	for k, f := range facts {
		if mentionsLocalOnly(f) {
			continue
		}
		out[k] = f
	}
	e.sums[key] = out
	e.NSummaries++
	return out
}

// mentionsLocalOnly: facts that refer to no parameter at all and are not
// events are useless to a caller; facts over locals are still kept when they
// also mention a parameter (the local part is rendered opaque to rules).
func mentionsLocalOnly(f *Fact) bool {
	if f.Kind == "forall" {
		return mentionsLocalOnly(f.Sub)
	}
	hasParam := false
	for _, n := range f.A {
		n.Walk(func(m *Node) {
			if m.K == "param" {
				hasParam = true
			}
		})
	}
	return !hasParam && f.Kind != "called" && f.Kind != "stored"
}

// Dump renders the analysis of a function for inspection.
func (a *FuncAnalysis) Dump() string {
	var sb strings.Builder
	fmt.Fprintf(&sb, "func %s (%d blocks)\n", SSAFuncName(a.Fn), len(a.Fn.Blocks))
	for _, b := range a.Fn.Blocks {
		fmt.Fprintf(&sb, " block %d %s preds=%v\n", b.Index, b.Comment, idxs(b.Preds))
		if a.In[b.Index] == nil {
			fmt.Fprintf(&sb, "   <unreachable>\n")
			continue
		}
		for _, k := range a.In[b.Index].Keys() {
			fmt.Fprintf(&sb, "   %s\n", k)
		}
	}
	return sb.String()
}

func idxs(bs []*ssa.BasicBlock) []int {
	var o []int
	for _, b := range bs {
		o = append(o, b.Index)
	}
	sort.Ints(o)
	return o
}

func baseIsFresh(addr ssa.Value) bool {
	for {
		switch x := addr.(type) {
		case *ssa.FieldAddr:
			addr = x.X
		case *ssa.IndexAddr:
			addr = x.X
		case *ssa.Alloc:
			return true
		default:
			return false
		}
	}
}

// sentinelError: a package-level error variable initialised in the package
// initialiser with a freshly made error and never assigned elsewhere in its
// package.
func sentinelError(g *ssa.Global) bool {
	if g.Pkg == nil {
		return false
	}
	inits, other := 0, 0
	for _, m := range g.Pkg.Members {
		f, ok := m.(*ssa.Function)
		if !ok {
			continue
		}
		fs := []*ssa.Function{f}
		fs = append(fs, f.AnonFuncs...)
		for _, fn := range fs {
			for _, b := range fn.Blocks {
				for _, in := range b.Instrs {
					st, ok := in.(*ssa.Store)
					if !ok || st.Addr != ssa.Value(g) {
						continue
					}
					made := false
					switch v := st.Val.(type) {
					case *ssa.Call:
						if sc := v.Call.StaticCallee(); sc != nil && nonNilErrorMakers[sc.String()] {
							made = true
						}
					case *ssa.MakeInterface:
						made = true
					}
					if f.Name() == "init" && made {
						inits++
					} else {
						other++
					}
				}
			}
		}
	}
	return inits == 1 && other == 0
}

// EdgeFacts returns the facts generated on the CFG edge from→to.
func (a *FuncAnalysis) EdgeFacts(from, to *ssa.BasicBlock) []*Fact {
	var out []*Fact
	for _, f := range a.edge[[2]int{from.Index, to.Index}] {
		out = append(out, f)
	}
	return out
}
