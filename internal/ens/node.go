// Package ens is engine E1: must-hold ("ensures") facts on SSA.
//
// Values are described as canonical expression trees over a function's
// parameters (p0, p1, …; the receiver is p0), field paths, constants and
// calls to *resolved* callees. Branch conditions become facts; a forward
// must-dataflow computes for every block the facts that hold on every path
// reaching it; accept exits are classified per result operand; summaries
// import the facts a successful callee guarantees, rebinding its parameters
// to the caller's arguments.
package ens

import (
	"go/types"
	"sort"
	"strings"
)

// Node is a canonical expression tree.
type Node struct {
	K   string  // kind: param, const, field, call, extract, bin, un, phi, local, new, index, slice, lookup, assert, conv, closure, global, func, builtin, fv, make, range, next, select, recv, opaque
	L   string  // label: param index, const text, field name, callee, operator, …
	A   []*Node // children
	T   types.Type
	Fn  interface{} // *ssa.Function of a static callee (call nodes)
	Ord int         // >1: the n-th syntactically identical call in its function (rendered name@n)
	// Alt: for a call of a private single-call-site value helper, the returned expression over
	// the arguments. Normal rendering shows the call; the expanded rendering (StringX) shows Alt,
	// i.e. what the code looked like before the lines were extracted into the helper.
	Alt *Node
	s   string
	sx  string
}

func (n *Node) String() string {
	if n == nil {
		return "?"
	}
	if n.s != "" {
		return n.s
	}
	n.s = n.render(0, false)
	return n.s
}

// StringX renders the tree with helper calls replaced by their expressions.
func (n *Node) StringX() string {
	if n == nil {
		return "?"
	}
	if n.sx != "" {
		return n.sx
	}
	n.sx = n.render(0, true)
	return n.sx
}

func (n *Node) hasAlt() bool {
	if n == nil {
		return false
	}
	if n.Alt != nil {
		return true
	}
	for _, c := range n.A {
		if c.hasAlt() {
			return true
		}
	}
	return false
}

const maxRenderDepth = 14

func (n *Node) render(d int, x bool) string {
	if n == nil {
		return "?"
	}
	if d > maxRenderDepth {
		return "…"
	}
	if x && n.Alt != nil {
		return n.Alt.render(d, false) // one level: helpers inside the helper stay calls
	}
	r := func(i int) string { return n.A[i].render(d+1, x) }
	all := func(from int) string {
		var sb []string
		for i := from; i < len(n.A); i++ {
			sb = append(sb, r(i))
		}
		return strings.Join(sb, ", ")
	}
	switch n.K {
	case "param":
		return "p" + n.L
	case "fv":
		return "fv:" + n.L
	case "const":
		return n.L
	case "field":
		return r(0) + "." + n.L
	case "call":
		if n.Ord > 1 {
			return n.L + "@" + itoa(n.Ord) + "(" + all(0) + ")"
		}
		return n.L + "(" + all(0) + ")"
	case "dyncall":
		return "dyn[" + r(0) + "](" + all(1) + ")"
	case "extract":
		return r(0) + "#" + n.L
	case "bin":
		return "(" + r(0) + " " + n.L + " " + r(1) + ")"
	case "un":
		return n.L + r(0)
	case "phi":
		return "phi(" + all(0) + ")"
	case "local":
		return "local:" + n.L
	case "new":
		return "new:" + n.L
	case "lit":
		parts := strings.SplitN(n.L, "|", 2)
		keys := strings.Split(parts[1], ",")
		var sb []string
		for i := range n.A {
			sb = append(sb, keys[i]+": "+r(i))
		}
		return "new:" + parts[0] + "{" + strings.Join(sb, ", ") + "}"
	case "index":
		return r(0) + "[" + r(1) + "]"
	case "slice":
		return r(0) + "[" + n.L + "]"
	case "lookup":
		return r(0) + "[" + r(1) + "]"
	case "assert":
		return r(0) + ".(" + n.L + ")"
	case "conv":
		return n.L + "(" + r(0) + ")"
	case "closure":
		return "closure:" + n.L
	case "global":
		return "global:" + n.L
	case "func":
		return "func:" + n.L
	case "builtin":
		return n.L
	case "make":
		return "make:" + n.L
	case "range":
		return "range(" + r(0) + ")"
	case "next":
		return "next(" + r(0) + ")"
	case "select":
		return "select(" + all(0) + ")"
	case "recv":
		return "<-" + r(0)
	case "send":
		return r(0) + "<-"
	case "any":
		return "_"
	}
	return n.K + ":" + n.L
}

func mk(k, l string, a ...*Node) *Node { return &Node{K: k, L: l, A: a} }

// Subst replaces parameter nodes by the given bindings (index -> node).
func (n *Node) Subst(bind []*Node) *Node {
	if n == nil {
		return nil
	}
	if n.K == "param" {
		i := atoi(n.L)
		if i >= 0 && i < len(bind) && bind[i] != nil {
			return bind[i]
		}
		return mk("opaque", "unbound-p"+n.L)
	}
	if len(n.A) == 0 {
		return n
	}
	changed := false
	na := make([]*Node, len(n.A))
	for i, c := range n.A {
		na[i] = c.Subst(bind)
		if na[i] != c {
			changed = true
		}
	}
	if !changed {
		return n
	}
	nn := &Node{K: n.K, L: n.L, A: na, T: n.T, Fn: n.Fn, Ord: n.Ord}
	if n.Alt != nil {
		nn.Alt = n.Alt.Subst(bind)
	}
	return nn
}

// Walk calls f on every node of the tree.
func (n *Node) Walk(f func(*Node)) {
	if n == nil {
		return
	}
	f(n)
	for _, c := range n.A {
		c.Walk(f)
	}
}

// Leaves returns the rendered leaves (params, consts, globals, locals, calls
// without arguments …) of the tree.
func (n *Node) Leaves() []string {
	set := map[string]bool{}
	n.Walk(func(m *Node) {
		if len(m.A) == 0 {
			set[m.String()] = true
		}
	})
	var out []string
	for k := range set {
		out = append(out, k)
	}
	sort.Strings(out)
	return out
}

// Calls returns the labels of every call node in the tree.
func (n *Node) Calls() []string {
	var out []string
	n.Walk(func(m *Node) {
		if m.K == "call" {
			out = append(out, m.L)
		}
	})
	return out
}

func itoa(i int) string {
	if i == 0 {
		return "0"
	}
	var b []byte
	for i > 0 {
		b = append([]byte{byte('0' + i%10)}, b...)
		i /= 10
	}
	return string(b)
}

func atoi(s string) int {
	v := 0
	if s == "" {
		return -1
	}
	for _, c := range s {
		if c < '0' || c > '9' {
			return -1
		}
		v = v*10 + int(c-'0')
	}
	return v
}

// Fact is something that holds at a program point.
type Fact struct {
	Kind string  // lt le eq ne T F ok fail isnil nonnil called stored forall when
	A    []*Node // operands
	Sub  *Fact   // for forall; the consequent of a guarded fact ("when")
	If   *Fact   // the antecedent of a guarded fact: when(If ⇒ Sub)
	Via  string  // provenance: "" (local edge) or callee summary it was imported from
	key  string
}

func (f *Fact) Key() string {
	if f.key != "" {
		return f.key
	}
	if f.Kind == "forall" {
		f.key = "forall(" + f.Sub.Key() + ")"
		return f.key
	}
	if f.Kind == "when" {
		f.key = "when(" + f.If.Key() + " => " + f.Sub.Key() + ")"
		return f.key
	}
	var sb []string
	for _, a := range f.A {
		sb = append(sb, a.String())
	}
	f.key = f.Kind + "(" + strings.Join(sb, ", ") + ")"
	return f.key
}

// KeyX is Key with helper calls expanded; "" when nothing would change.
func (f *Fact) KeyX() string {
	if f.Kind == "forall" {
		if k := f.Sub.KeyX(); k != "" {
			return "forall(" + k + ")"
		}
		return ""
	}
	if f.Kind == "when" {
		return ""
	}
	any := false
	for _, a := range f.A {
		if a.hasAlt() {
			any = true
		}
	}
	if !any {
		return ""
	}
	var sb []string
	for _, a := range f.A {
		sb = append(sb, a.StringX())
	}
	if (f.Kind == "eq" || f.Kind == "ne") && len(sb) == 2 && sb[0] > sb[1] {
		sb[0], sb[1] = sb[1], sb[0]
	}
	return f.Kind + "(" + strings.Join(sb, ", ") + ")"
}

func (f *Fact) Subst(bind []*Node, via string) *Fact {
	nf := &Fact{Kind: f.Kind, Via: via}
	if f.Via != "" {
		nf.Via = via + ">" + f.Via
	}
	if f.Sub != nil {
		nf.Sub = f.Sub.Subst(bind, via)
	}
	if f.If != nil {
		nf.If = f.If.Subst(bind, via)
	}
	for _, a := range f.A {
		nf.A = append(nf.A, a.Subst(bind))
	}
	if nf.Kind == "eq" || nf.Kind == "ne" {
		orderPair(nf)
	}
	return nf
}

func orderPair(f *Fact) {
	if len(f.A) == 2 && f.A[0].String() > f.A[1].String() {
		f.A[0], f.A[1] = f.A[1], f.A[0]
	}
}

// FactSet maps fact keys to facts. nil is the universe (unreached).
type FactSet map[string]*Fact

func (s FactSet) Clone() FactSet {
	o := make(FactSet, len(s))
	for k, v := range s {
		o[k] = v
	}
	return o
}

func (s FactSet) Add(f *Fact) {
	if f != nil {
		if _, ok := s[f.Key()]; !ok {
			s[f.Key()] = f
		}
	}
}

func (s FactSet) Keys() []string {
	var out []string
	for k := range s {
		out = append(out, k)
	}
	sort.Strings(out)
	return out
}

// Intersect returns a ∩ b, treating nil as the universe.
func Intersect(a, b FactSet) FactSet {
	if a == nil {
		if b == nil {
			return nil
		}
		return b.Clone()
	}
	if b == nil {
		return a.Clone()
	}
	o := FactSet{}
	for k, v := range a {
		if _, ok := b[k]; ok {
			o[k] = v
		}
	}
	return o
}

func equalSets(a, b FactSet) bool {
	if (a == nil) != (b == nil) {
		return false
	}
	if len(a) != len(b) {
		return false
	}
	for k := range a {
		if _, ok := b[k]; !ok {
			return false
		}
	}
	return true
}

// Glob matching: '*' matches any run of characters; everything else literal.
func Glob(pat, s string) bool {
	// iterative glob with backtracking
	p, i := 0, 0
	star, mark := -1, 0
	for i < len(s) {
		if p < len(pat) && pat[p] == '*' {
			star = p
			mark = i
			p++
		} else if p < len(pat) && pat[p] == s[i] {
			p++
			i++
		} else if star >= 0 {
			p = star + 1
			mark++
			i = mark
		} else {
			return false
		}
	}
	for p < len(pat) && pat[p] == '*' {
		p++
	}
	return p == len(pat)
}

// Has reports whether any fact key matches the glob pattern; alternatives
// may be separated by " || ".
func (s FactSet) Has(pat string) (string, bool) {
	alts := strings.Split(pat, " || ")
	for _, alt := range alts {
		if sw := swapSym(strings.TrimSpace(alt)); sw != "" {
			alts = append(alts, sw)
		}
	}
	for _, alt := range alts {
		alt = strings.TrimSpace(alt)
		if f, ok := s[alt]; ok {
			return f.Key(), true
		}
		// ne(C, X) for a constant C follows from eq(C', X) with another constant C'
		if strings.HasPrefix(alt, "ne(") && !strings.Contains(alt, "*") {
			if i := strings.Index(alt, ", "); i > 3 && isConstText(alt[3:i]) {
				rest := alt[i:]
				for k := range s {
					if strings.HasPrefix(k, "eq(") && strings.HasSuffix(k, rest) {
						c2 := k[3 : len(k)-len(rest)]
						if isConstText(c2) && c2 != alt[3:i] && sameConstType(c2, alt[3:i]) {
							return k, true
						}
					}
				}
			}
		}
		if strings.Contains(alt, "*") {
			for _, k := range s.Keys() {
				if Glob(alt, k) {
					return k, true
				}
			}
		}
		if k, ok := s.impliedOrder(alt); ok {
			return k, true
		}
	}
	// last resort: the same facts with private value helpers written out
	for _, f := range s {
		kx := f.KeyX()
		if kx == "" {
			continue
		}
		for _, alt := range alts {
			alt = strings.TrimSpace(alt)
			if kx == alt || (strings.Contains(alt, "*") && Glob(alt, kx)) {
				return f.Key(), true
			}
		}
	}
	return "", false
}

// splitTop splits "kind(a, b)" into kind, a, b at the top-level comma.
func splitTop(pat string) (kind, a, b string, ok bool) {
	i := strings.Index(pat, "(")
	if i <= 0 || !strings.HasSuffix(pat, ")") {
		return
	}
	kind = pat[:i]
	body := pat[i+1 : len(pat)-1]
	depth := 0
	for j := 0; j < len(body); j++ {
		switch body[j] {
		case '(', '[', '{':
			depth++
		case ')', ']', '}':
			depth--
		case ',':
			if depth == 0 && j+1 < len(body) && body[j+1] == ' ' {
				return kind, body[:j], body[j+2:], true
			}
		}
	}
	return
}

func constIntText(t string) (int64, bool) {
	if i := strings.Index(t, ":"); i >= 0 {
		t = t[:i]
	}
	if t == "" || t[0] == '"' {
		return 0, false
	}
	neg := false
	if t[0] == '-' {
		neg = true
		t = t[1:]
	}
	var v int64
	if t == "" {
		return 0, false
	}
	for _, c := range t {
		if c < '0' || c > '9' {
			return 0, false
		}
		v = v*10 + int64(c-'0')
		if v < 0 {
			return 0, false
		}
	}
	if neg {
		v = -v
	}
	return v, true
}

// impliedOrder: an exact (glob-free) le / lt / ne pattern also holds when it
// follows from an equality or a stronger order fact of the set:
//
//	le(A,B) ⇐ eq(A,B) | lt(A,B);  ne(A,B) ⇐ lt(A,B) | lt(B,A);
//
// and, when one side is an integer constant, from a fact that bounds the other
// side by another constant (eq(1,X) ⇒ le(X,1), lt(0,X), ne(0,X), le(X,5) …).
// Branch conditions that a rewrite of an if-chain into a switch (or an early
// return) leaves unevaluated on a path are exactly of this kind.
func (s FactSet) impliedOrder(pat string) (string, bool) {
	if strings.Contains(pat, "*") {
		return "", false
	}
	kind, a, b, ok := splitTop(pat)
	if !ok || (kind != "le" && kind != "lt" && kind != "ne") {
		return "", false
	}
	has := func(k string) (string, bool) {
		if f, ok := s[k]; ok {
			return f.Key(), true
		}
		return "", false
	}
	eq := func(x, y string) (string, bool) {
		if k, ok := has("eq(" + x + ", " + y + ")"); ok {
			return k, true
		}
		return has("eq(" + y + ", " + x + ")")
	}
	switch kind {
	case "le":
		if k, ok := eq(a, b); ok {
			return k, true
		}
		if k, ok := has("lt(" + a + ", " + b + ")"); ok {
			return k, true
		}
	case "ne":
		if k, ok := has("lt(" + a + ", " + b + ")"); ok {
			return k, true
		}
		if k, ok := has("lt(" + b + ", " + a + ")"); ok {
			return k, true
		}
	}
	// constant bounds: collect what the set knows about the non-constant side X as an interval
	ca, aConst := constIntText(a)
	cb, bConst := constIntText(b)
	if aConst == bConst {
		return "", false
	}
	x := a
	if aConst {
		x = b
	}
	lo, hi := int64(-1<<62), int64(1<<62)
	why := ""
	for k, f := range s {
		fk, fa, fb, ok := splitTop(k)
		if !ok || f.Kind != fk {
			continue
		}
		va, aC := constIntText(fa)
		vb, bC := constIntText(fb)
		switch {
		case fk == "eq" && aC && fb == x:
			lo, hi, why = maxI(lo, va), minI(hi, va), k
		case fk == "eq" && bC && fa == x:
			lo, hi, why = maxI(lo, vb), minI(hi, vb), k
		case fk == "le" && bC && fa == x: // x <= c
			if vb < hi {
				hi, why = vb, k
			}
		case fk == "le" && aC && fb == x: // c <= x
			if va > lo {
				lo, why = va, k
			}
		case fk == "lt" && bC && fa == x: // x < c
			if vb-1 < hi {
				hi, why = vb-1, k
			}
		case fk == "lt" && aC && fb == x: // c < x
			if va+1 > lo {
				lo, why = va+1, k
			}
		}
	}
	if why == "" {
		return "", false
	}
	okb := false
	switch {
	case kind == "le" && bConst: // x <= cb
		okb = hi <= cb
	case kind == "le" && aConst: // ca <= x
		okb = ca <= lo
	case kind == "lt" && bConst: // x < cb
		okb = hi < cb
	case kind == "lt" && aConst: // ca < x
		okb = ca < lo
	case kind == "ne" && bConst:
		okb = cb < lo || cb > hi
	case kind == "ne" && aConst:
		okb = ca < lo || ca > hi
	}
	if okb {
		return why, true
	}
	return "", false
}

func maxI(a, b int64) int64 {
	if a > b {
		return a
	}
	return b
}

func minI(a, b int64) int64 {
	if a < b {
		return a
	}
	return b
}

// swapSym: for eq(a, b) / ne(a, b) patterns returns the pattern with the two
// top-level operands exchanged (fact keys order them lexically).
func swapSym(pat string) string {
	if !(strings.HasPrefix(pat, "eq(") || strings.HasPrefix(pat, "ne(")) || !strings.HasSuffix(pat, ")") {
		return ""
	}
	body := pat[3 : len(pat)-1]
	depth := 0
	for i := 0; i < len(body); i++ {
		switch body[i] {
		case '(', '[', '{':
			depth++
		case ')', ']', '}':
			depth--
		case ',':
			if depth == 0 && i+1 < len(body) && body[i+1] == ' ' {
				return pat[:3] + body[i+2:] + ", " + body[:i] + ")"
			}
		}
	}
	return ""
}

func isConstText(t string) bool {
	if t == "" {
		return false
	}
	c := t[0]
	return (c >= '0' && c <= '9') || c == '-' || c == '"'
}

// sameConstType: "2:MessageType" vs "0:MessageType" (typed) or two untyped numbers.
func sameConstType(a, b string) bool {
	ta, tb := "", ""
	if i := strings.Index(a, ":"); i >= 0 {
		ta = a[i:]
	}
	if i := strings.Index(b, ":"); i >= 0 {
		tb = b[i:]
	}
	return ta == tb
}

// Complement returns the key of the fact that holds exactly when f does not
// (for the kinds that have one): T/F, isnil/nonnil, eq/ne, lt(a,b)/le(b,a).
func (f *Fact) Complement() string {
	arg := func(i int) string { return f.A[i].String() }
	switch f.Kind {
	case "T":
		return "F(" + arg(0) + ")"
	case "F":
		return "T(" + arg(0) + ")"
	case "isnil":
		return "nonnil(" + arg(0) + ")"
	case "nonnil":
		return "isnil(" + arg(0) + ")"
	case "eq":
		return "ne(" + arg(0) + ", " + arg(1) + ")"
	case "ne":
		return "eq(" + arg(0) + ", " + arg(1) + ")"
	case "lt":
		return "le(" + arg(1) + ", " + arg(0) + ")"
	case "le":
		return "lt(" + arg(1) + ", " + arg(0) + ")"
	}
	return ""
}
