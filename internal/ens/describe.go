package ens

import (
	"fmt"
	"go/constant"
	"go/token"
	"go/types"
	"sort"
	"strings"

	"golang.org/x/tools/go/ssa"
)

// ShortPkg strips the common module prefix.
func ShortPkg(path string) string {
	return strings.TrimPrefix(path, "github.com/bloxapp/")
}

// FuncName renders a types.Func as pkg.Recv.Name (pointer-ness dropped).
func FuncName(f *types.Func) string {
	if f == nil {
		return "?"
	}
	sig, _ := f.Type().(*types.Signature)
	pkg := ""
	if f.Pkg() != nil {
		pkg = ShortPkg(f.Pkg().Path())
	}
	if sig != nil && sig.Recv() != nil {
		t := sig.Recv().Type()
		if p, ok := t.(*types.Pointer); ok {
			t = p.Elem()
		}
		if n, ok := t.(*types.Named); ok {
			tp := pkg
			if n.Obj().Pkg() != nil {
				tp = ShortPkg(n.Obj().Pkg().Path())
			}
			return tp + "." + n.Obj().Name() + "." + f.Name()
		}
		// method of an unnamed interface literal
		return pkg + ".<iface>." + f.Name()
	}
	return pkg + "." + f.Name()
}

// SSAFuncName renders an ssa.Function, including anonymous functions
// (Parent$N) and instantiations.
func SSAFuncName(fn *ssa.Function) string {
	if fn == nil {
		return "?"
	}
	if fn.Parent() != nil {
		return SSAFuncName(fn.Parent()) + "$" + strings.TrimPrefix(fn.Name()[strings.LastIndex(fn.Name(), "$"):], "$")
	}
	if o, ok := fn.Object().(*types.Func); ok && o != nil {
		return FuncName(o)
	}
	if fn.Origin() != nil {
		return SSAFuncName(fn.Origin())
	}
	return fn.String()
}

func typeName(t types.Type) string {
	return types.TypeString(t, func(p *types.Package) string { return ShortPkg(p.Path()) })
}

// describer builds Nodes for the values of one function.
type describer struct {
	fn    *ssa.Function
	memo  map[ssa.Value]*Node
	busy  map[ssa.Value]bool
	bind  []*Node // descriptions of free variables (closures analysed in the parent's context)
	eng   *Engine
	store map[ssa.Value][]*ssa.Store // stores by address value
	dom   func(a, b *ssa.BasicBlock) bool
}

func newDescriber(e *Engine, fn *ssa.Function, bind []*Node) *describer {
	d := &describer{fn: fn, memo: map[ssa.Value]*Node{}, busy: map[ssa.Value]bool{}, bind: bind, eng: e, store: map[ssa.Value][]*ssa.Store{}}
	for _, b := range fn.Blocks {
		for _, in := range b.Instrs {
			if st, ok := in.(*ssa.Store); ok {
				d.store[st.Addr] = append(d.store[st.Addr], st)
			}
		}
	}
	// number syntactically identical calls in program order, so that
	// "HasQuorum before" and "HasQuorum after" stay distinguishable
	seen := map[string]int{}
	for _, b := range fn.Blocks {
		for _, in := range b.Instrs {
			if c, ok := in.(*ssa.Call); ok {
				n := d.D(c)
				if n.K != "call" {
					continue
				}
				if _, isBuiltin := c.Call.Value.(*ssa.Builtin); isBuiltin {
					continue // len, cap, append, copy …: no per-site identity
				}
				base := n.String()
				seen[base]++
				if seen[base] > 1 {
					n.Ord = seen[base]
					n.s = ""
				}
			}
		}
	}
	if len(seen) > 0 {
		// renderings of dependants were cached with the un-numbered form
		for _, n := range d.memo {
			clearCache(n, map[*Node]bool{})
		}
	}
	return d
}

func clearCache(n *Node, done map[*Node]bool) {
	if n == nil || done[n] {
		return
	}
	done[n] = true
	n.s = ""
	for _, k := range n.A {
		clearCache(k, done)
	}
}

func constText(c *ssa.Const) string {
	if c.Value == nil {
		if _, ok := c.Type().Underlying().(*types.Struct); ok {
			return "zero:" + typeName(c.Type())
		}
		if _, ok := c.Type().Underlying().(*types.Array); ok {
			return "zero:" + typeName(c.Type())
		}
		return "nil"
	}
	switch c.Value.Kind() {
	case constant.Bool:
		return c.Value.String()
	case constant.String:
		s := constant.StringVal(c.Value)
		if len(s) > 40 {
			s = s[:40] + "…"
		}
		return fmt.Sprintf("%q", s)
	}
	tn := ""
	if n, ok := c.Type().(*types.Named); ok {
		tn = ":" + n.Obj().Name()
	}
	return c.Value.ExactString() + tn
}

func (d *describer) D(v ssa.Value) *Node {
	if v == nil {
		return mk("opaque", "nil-value")
	}
	if n, ok := d.memo[v]; ok {
		return n
	}
	if d.busy[v] {
		return mk("opaque", "cycle")
	}
	d.busy[v] = true
	n := d.describe(v)
	if n.T == nil {
		n.T = v.Type()
	}
	delete(d.busy, v)
	d.memo[v] = n
	return n
}

func (d *describer) describe(v ssa.Value) *Node {
	switch v := v.(type) {
	case *ssa.Parameter:
		for i, p := range d.fn.Params {
			if p == v {
				return mk("param", fmt.Sprint(i))
			}
		}
		return mk("opaque", "param?")
	case *ssa.FreeVar:
		for i, fv := range d.fn.FreeVars {
			if fv == v {
				if i < len(d.bind) && d.bind[i] != nil {
					return d.bind[i]
				}
				return mk("fv", fv.Name())
			}
		}
		return mk("fv", v.Name())
	case *ssa.Const:
		return mk("const", constText(v))
	case *ssa.Global:
		p := ""
		if v.Pkg != nil {
			p = ShortPkg(v.Pkg.Pkg.Path()) + "."
		}
		return mk("global", p+v.Name())
	case *ssa.Function:
		return mk("func", SSAFuncName(v))
	case *ssa.Builtin:
		return mk("builtin", v.Name())
	case *ssa.FieldAddr:
		return mk("field", fieldName(v.X.Type(), v.Field), d.D(v.X))
	case *ssa.Field:
		return mk("field", fieldName(v.X.Type(), v.Field), d.D(v.X))
	case *ssa.UnOp:
		switch v.Op {
		case token.MUL:
			return d.load(v)
		case token.ARROW:
			return mk("recv", "", d.D(v.X))
		case token.NOT:
			return mk("un", "!", d.D(v.X))
		case token.SUB:
			return mk("un", "-", d.D(v.X))
		case token.XOR:
			return mk("un", "^", d.D(v.X))
		}
		return mk("un", v.Op.String(), d.D(v.X))
	case *ssa.BinOp:
		return mk("bin", v.Op.String(), d.D(v.X), d.D(v.Y))
	case *ssa.Call:
		return d.call(&v.Call)
	case *ssa.Extract:
		// k-th result of a pure expression function: the expression itself
		if call, ok := v.Tuple.(*ssa.Call); ok && !call.Call.IsInvoke() {
			if f, ok := call.Call.Value.(*ssa.Function); ok && d.eng != nil {
				if exprs := d.eng.pureExprs(f); exprs != nil && v.Index < len(exprs) {
					var args []*Node
					for _, a := range call.Call.Args {
						args = append(args, d.D(a))
					}
					return exprs[v.Index].Subst(args)
				}
			}
		}
		ex := mk("extract", fmt.Sprint(v.Index), d.D(v.Tuple))
		if call, ok := v.Tuple.(*ssa.Call); ok && !call.Call.IsInvoke() && d.eng != nil {
			if f, ok := call.Call.Value.(*ssa.Function); ok {
				if rs := d.eng.valueHelperResults(f); v.Index < len(rs) && len(rs) > 1 {
					var args []*Node
					for _, a := range call.Call.Args {
						args = append(args, d.D(a))
					}
					ex.Alt = rs[v.Index].Subst(args)
				}
			}
		}
		return ex
	case *ssa.Phi:
		var kids []*Node
		seen := map[string]bool{}
		for _, e := range v.Edges {
			k := d.D(e)
			if !seen[k.String()] {
				seen[k.String()] = true
				kids = append(kids, k)
			}
		}
		sort.Slice(kids, func(i, j int) bool { return kids[i].String() < kids[j].String() })
		if len(kids) == 1 && kids[0].K != "opaque" {
			return kids[0]
		}
		return mk("phi", v.Comment, kids...)
	case *ssa.Alloc:
		name := v.Comment
		if name == "complit" || name == "new" || name == "slicelit" || strings.HasPrefix(name, "makeslice") || name == "varargs" {
			t := v.Type()
			if p, ok := t.(*types.Pointer); ok {
				t = p.Elem()
			}
			return d.literal(v, typeName(t))
		}
		if st := d.soleStore(v); st != nil {
			return d.D(st.Val)
		}
		if src := d.soleCopy(v); src != nil {
			return mk("conv", "copy", d.D(src))
		}
		return mk("local", name)
	case *ssa.IndexAddr:
		return mk("index", "", d.D(v.X), d.idx(v.Index))
	case *ssa.Index:
		return mk("index", "", d.D(v.X), d.idx(v.Index))
	case *ssa.Lookup:
		n := mk("lookup", "", d.D(v.X), d.D(v.Index))
		return n
	case *ssa.Slice:
		lo, hi := "", ""
		if v.Low != nil {
			lo = d.D(v.Low).String()
		}
		if v.High != nil {
			hi = d.D(v.High).String()
		}
		return mk("slice", lo+":"+hi, d.D(v.X))
	case *ssa.TypeAssert:
		return mk("assert", typeName(v.AssertedType), d.D(v.X))
	case *ssa.ChangeType:
		return d.D(v.X)
	case *ssa.ChangeInterface:
		return d.D(v.X)
	case *ssa.MakeInterface:
		return d.D(v.X)
	case *ssa.Convert:
		return mk("conv", typeName(v.Type()), d.D(v.X))
	case *ssa.SliceToArrayPointer:
		return mk("conv", typeName(v.Type()), d.D(v.X))
	case *ssa.MakeClosure:
		f, _ := v.Fn.(*ssa.Function)
		return mk("closure", SSAFuncName(f))
	case *ssa.MakeMap:
		return mk("make", typeName(v.Type()))
	case *ssa.MakeSlice:
		return mk("make", typeName(v.Type()))
	case *ssa.MakeChan:
		return mk("make", typeName(v.Type()))
	case *ssa.Range:
		return mk("range", "", d.D(v.X))
	case *ssa.Next:
		return mk("next", "", d.D(v.Iter))
	case *ssa.Select:
		var kids []*Node
		for _, st := range v.States {
			if st.Dir == types.RecvOnly {
				kids = append(kids, mk("recv", "", d.D(st.Chan)))
			} else {
				kids = append(kids, mk("send", "", d.D(st.Chan)))
			}
		}
		return mk("select", "", kids...)
	}
	return mk("opaque", fmt.Sprintf("%T", v))
}

func (d *describer) idx(v ssa.Value) *Node {
	if c, ok := v.(*ssa.Const); ok {
		return mk("const", constText(c))
	}
	return mk("any", "")
}

func fieldName(t types.Type, i int) string {
	if p, ok := t.Underlying().(*types.Pointer); ok {
		t = p.Elem()
	}
	if st, ok := t.Underlying().(*types.Struct); ok && i < st.NumFields() {
		return st.Field(i).Name()
	}
	return fmt.Sprintf("f%d", i)
}

// load describes *addr. Field and element addresses are transparent
// (address and content share a description). Loads of locals are forwarded
// to the stored value when that is unambiguous.
func (d *describer) load(u *ssa.UnOp) *Node {
	switch a := u.X.(type) {
	case *ssa.Alloc, *ssa.FreeVar:
		if st := d.reachingStore(u, a); st != nil {
			return d.D(st.Val)
		}
	}
	return d.D(u.X)
}

// reachingStore: the store to addr that certainly reaches the load: either
// the latest store in the same block before the load, or the only store in
// the function if it is in a dominating block.
func (d *describer) reachingStore(u *ssa.UnOp, addr ssa.Value) *ssa.Store {
	stores := d.store[addr]
	if len(stores) == 0 {
		return nil
	}
	b := u.Block()
	var last *ssa.Store
	for _, in := range b.Instrs {
		if in == ssa.Instruction(u) {
			break
		}
		if st, ok := in.(*ssa.Store); ok && st.Addr == addr {
			last = st
		}
	}
	if last != nil {
		return last
	}
	if len(stores) == 1 {
		sb := stores[0].Block()
		if sb != b && sb.Dominates(b) {
			// the address must not escape to a closure that may write it
			if al, ok := addr.(*ssa.Alloc); ok && allocCaptured(al) {
				return nil
			}
			return stores[0]
		}
	}
	return nil
}

func allocCaptured(a *ssa.Alloc) bool {
	if a.Referrers() == nil {
		return false
	}
	for _, r := range *a.Referrers() {
		if _, ok := r.(*ssa.MakeClosure); ok {
			return true
		}
	}
	return false
}

func (d *describer) call(c *ssa.CallCommon) *Node {
	var args []*Node
	if c.IsInvoke() {
		args = append(args, d.D(c.Value))
		for _, a := range c.Args {
			args = append(args, d.D(a))
		}
		return mk("call", FuncName(c.Method), args...)
	}
	for _, a := range c.Args {
		args = append(args, d.D(a))
	}
	switch f := c.Value.(type) {
	case *ssa.Function:
		if acc := d.eng.accessor(f); acc != nil {
			return acc.Subst(args)
		}
		n := mk("call", SSAFuncName(f), args...)
		n.Fn = f
		if vh := d.eng.valueHelper(f); vh != nil {
			n.Alt = vh.Subst(args)
		}
		return n
	case *ssa.Builtin:
		return mk("call", f.Name(), args...)
	case *ssa.MakeClosure:
		fn, _ := f.Fn.(*ssa.Function)
		n := mk("call", SSAFuncName(fn), args...)
		n.Fn = fn
		return n
	}
	return mk("dyncall", "", append([]*Node{d.D(c.Value)}, args...)...)
}

// literal describes a composite literal allocation together with the
// element / field initialisers stored in the allocating block:
// new:T{f: v, …} or new:[n]T{0: v}.
func (d *describer) literal(al *ssa.Alloc, tn string) *Node {
	n := mk("new", tn)
	if al.Referrers() == nil {
		return n
	}
	type init struct {
		key string
		val ssa.Value
	}
	var inits []init
	for _, r := range *al.Referrers() {
		var key string
		var addr ssa.Value
		switch x := r.(type) {
		case *ssa.FieldAddr:
			if x.X != ssa.Value(al) || x.Block() != al.Block() {
				continue
			}
			key, addr = fieldName(x.X.Type(), x.Field), x
		case *ssa.IndexAddr:
			c, ok := x.Index.(*ssa.Const)
			if x.X != ssa.Value(al) || x.Block() != al.Block() || !ok {
				continue
			}
			key, addr = constText(c), x
		default:
			continue
		}
		for _, st := range d.store[addr] {
			if st.Block() == al.Block() {
				inits = append(inits, init{key, st.Val})
			}
		}
	}
	if len(inits) == 0 {
		return n
	}
	sort.SliceStable(inits, func(i, j int) bool { return inits[i].key < inits[j].key })
	var parts []string
	for _, in := range inits {
		k := d.D(in.val)
		n.A = append(n.A, k)
		parts = append(parts, in.key)
	}
	n.K = "lit"
	n.L = tn + "|" + strings.Join(parts, ",")
	return n
}

// soleStore: the alloc is written exactly once, with a non-zero value, in a
// block that dominates every other use, and is not captured by a closure —
// then the variable *is* that value for every reader.
func (d *describer) soleStore(al *ssa.Alloc) *ssa.Store {
	sts := d.store[al]
	if len(sts) != 1 || al.Referrers() == nil {
		return nil
	}
	st := sts[0]
	if c, ok := st.Val.(*ssa.Const); ok && (c.Value == nil) {
		return nil
	}
	for _, r := range *al.Referrers() {
		if r == ssa.Instruction(st) {
			continue
		}
		if mc, ok := r.(*ssa.MakeClosure); ok {
			if closureWrites(mc, al, 0) {
				return nil
			}
			continue
		}
		if _, ok := r.(*ssa.DebugRef); ok {
			continue
		}
		rb := r.Block()
		if rb == st.Block() {
			// must come after the store
			after := false
			for _, in := range rb.Instrs {
				if in == ssa.Instruction(st) {
					after = true
				}
				if in == r {
					break
				}
			}
			if !after {
				return nil
			}
			continue
		}
		if !st.Block().Dominates(rb) {
			return nil
		}
	}
	return st
}

// Call describes a call instruction's callee and arguments.
func (d *describer) Call(c ssa.CallInstruction) *Node {
	if v, ok := c.(*ssa.Call); ok {
		return d.D(v)
	}
	return d.call(c.Common())
}

// Describer is the exported view of the per-function value describer.
type Describer = describer

// accessor: a function whose whole body is "return <field path over its
// parameters>" (GetState, GetShare, GetBaseRunner, GetHeight …) is
// transparent: calls to it are described by the path itself, so that two
// calls of the same getter denote the same thing.
func (e *Engine) accessor(f *ssa.Function) *Node {
	if e == nil {
		return nil
	}
	if n, ok := e.acc[f]; ok {
		return n
	}
	e.acc[f] = nil
	if !e.canExpand(f) || len(f.Blocks) != 1 || f.Signature.Results().Len() != 1 || len(f.FreeVars) > 0 {
		return nil
	}
	var ret *ssa.Return
	for _, in := range f.Blocks[0].Instrs {
		switch x := in.(type) {
		case *ssa.FieldAddr, *ssa.Field, *ssa.DebugRef:
		case *ssa.UnOp:
			if x.Op != token.MUL {
				return nil
			}
		case *ssa.Return:
			ret = x
		default:
			return nil
		}
	}
	if ret == nil || len(ret.Results) != 1 {
		return nil
	}
	if _, isConst := ret.Results[0].(*ssa.Const); isConst {
		return nil
	}
	d := newDescriber(nil, f, nil)
	n := d.D(ret.Results[0])
	ok := true
	n.Walk(func(m *Node) {
		if m.K != "field" && m.K != "param" {
			ok = false
		}
	})
	if !ok {
		return nil
	}
	e.acc[f] = n
	return n
}

// valueHelper: a private function with ONE call site in its package, one
// non-error result, a single return and no writes is what "extract these
// lines into a helper" produces for a computed value. It is transparent: the
// call is described by the returned expression over the arguments, so facts
// and patterns do not depend on whether the computation is written inline.
func (e *Engine) valueHelper(f *ssa.Function) *Node {
	rs := e.valueHelperResults(f)
	if len(rs) != 1 {
		return nil
	}
	return rs[0]
}

// valueHelperResults: one expression per result (several returns merge into a φ
// in return order, as the inlined code's join would).
func (e *Engine) valueHelperResults(f *ssa.Function) []*Node {
	if e == nil || f == nil {
		return nil
	}
	if n, ok := e.vh[f]; ok {
		return n
	}
	if e.vh == nil {
		e.vh = map[*ssa.Function][]*Node{}
	}
	e.vh[f] = nil // cuts recursion
	obj := f.Object()
	if obj == nil || obj.Exported() || f.Parent() != nil || !e.canExpand(f) || len(f.Blocks) == 0 || len(f.FreeVars) > 0 {
		return nil
	}
	res := f.Signature.Results()
	if res.Len() == 0 || res.Len() > 3 {
		return nil
	}
	for i := 0; i < res.Len(); i++ {
		if isErrorType(res.At(i).Type()) {
			return nil
		}
	}
	var rets []*ssa.Return
	for _, b := range f.Blocks {
		for _, p := range b.Preds {
			if b.Dominates(p) {
				return nil // a loop: the value is not an expression over the arguments
			}
		}
		for _, in := range b.Instrs {
			switch x := in.(type) {
			case *ssa.Return:
				rets = append(rets, x)
			case *ssa.Store, *ssa.Send, *ssa.Go, *ssa.Defer, *ssa.MapUpdate, *ssa.Panic, *ssa.Select, *ssa.RunDefers:
				return nil
			}
		}
	}
	if len(rets) == 0 || len(rets) > 4 || e.callSitesInPkg(f) != 1 {
		return nil
	}
	sort.Slice(rets, func(i, j int) bool { return rets[i].Pos() < rets[j].Pos() })
	d := newDescriber(e, f, nil)
	out := make([]*Node, res.Len())
	for k := 0; k < res.Len(); k++ {
		var kids []*Node
		seen := map[string]bool{}
		for _, r := range rets {
			n := d.D(r.Results[k])
			if !seen[n.String()] {
				seen[n.String()] = true
				kids = append(kids, n)
			}
		}
		if len(kids) == 1 {
			out[k] = kids[0]
		} else {
			out[k] = mk("phi", "", kids...)
		}
	}
	e.vh[f] = out
	return out
}

// callSitesInPkg counts the static call sites of f in its own package.
func (e *Engine) callSitesInPkg(f *ssa.Function) int {
	if f.Pkg == nil {
		return 0
	}
	if e.sites == nil {
		e.sites = map[*ssa.Package]map[*ssa.Function]int{}
	}
	m, ok := e.sites[f.Pkg]
	if !ok {
		m = map[*ssa.Function]int{}
		var visit func(g *ssa.Function)
		seen := map[*ssa.Function]bool{}
		visit = func(g *ssa.Function) {
			if g == nil || seen[g] {
				return
			}
			seen[g] = true
			for _, b := range g.Blocks {
				for _, in := range b.Instrs {
					if ci, ok := in.(ssa.CallInstruction); ok {
						if h := ci.Common().StaticCallee(); h != nil {
							m[h]++
						}
					}
				}
			}
			for _, a := range g.AnonFuncs {
				visit(a)
			}
		}
		for _, mem := range f.Pkg.Members {
			switch x := mem.(type) {
			case *ssa.Function:
				visit(x)
			case *ssa.Type:
				for _, t := range []types.Type{x.Type(), types.NewPointer(x.Type())} {
					ms := f.Prog.MethodSets.MethodSet(t)
					for i := 0; i < ms.Len(); i++ {
						visit(f.Prog.MethodValue(ms.At(i)))
					}
				}
			}
		}
		e.sites[f.Pkg] = m
	}
	return m[f]
}

// pureExprs: a function whose single block only computes arithmetic over its
// parameters (field reads, unary / binary operators, conversions, len) and
// returns several results — e.g. a helper that computes offsets and lengths —
// is transparent as well: each result is described by its expression.
func (e *Engine) pureExprs(f *ssa.Function) []*Node {
	if e == nil {
		return nil
	}
	if n, ok := e.pure[f]; ok {
		return n
	}
	if e.pure == nil {
		e.pure = map[*ssa.Function][]*Node{}
	}
	e.pure[f] = nil
	if !e.canExpand(f) || len(f.Blocks) != 1 || f.Signature.Results().Len() < 2 || len(f.FreeVars) > 0 {
		return nil
	}
	var ret *ssa.Return
	for _, in := range f.Blocks[0].Instrs {
		switch x := in.(type) {
		case *ssa.FieldAddr, *ssa.Field, *ssa.DebugRef, *ssa.BinOp, *ssa.Convert, *ssa.ChangeType:
		case *ssa.UnOp:
			if x.Op == token.ARROW {
				return nil
			}
		case *ssa.Call:
			b, ok := x.Call.Value.(*ssa.Builtin)
			if !ok || (b.Name() != "len" && b.Name() != "cap") {
				return nil
			}
		case *ssa.Return:
			ret = x
		default:
			return nil
		}
	}
	if ret == nil {
		return nil
	}
	d := newDescriber(nil, f, nil)
	var out []*Node
	for _, r := range ret.Results {
		out = append(out, d.D(r))
	}
	e.pure[f] = out
	return out
}

// soleCopy: a zero-initialised array local whose only write is one
// copy(local[:], src) — the idiom "sig := BLSSignature{}; copy(sig[:], b)".
func (d *describer) soleCopy(al *ssa.Alloc) ssa.Value {
	if al.Referrers() == nil {
		return nil
	}
	for _, st := range d.store[al] {
		if c, ok := st.Val.(*ssa.Const); !ok || c.Value != nil {
			return nil
		}
	}
	var src ssa.Value
	n := 0
	for _, r := range *al.Referrers() {
		sl, ok := r.(*ssa.Slice)
		if !ok || sl.Referrers() == nil {
			continue
		}
		for _, u := range *sl.Referrers() {
			if c, ok := u.(*ssa.Call); ok {
				if b, ok := c.Call.Value.(*ssa.Builtin); ok && b.Name() == "copy" && len(c.Call.Args) == 2 && c.Call.Args[0] == ssa.Value(sl) {
					src = c.Call.Args[1]
					n++
				}
			}
		}
	}
	if n == 1 {
		return src
	}
	return nil
}

// closureWrites: does the closure (or a closure nested in it) store into the
// captured variable v?
func closureWrites(mc *ssa.MakeClosure, v ssa.Value, depth int) bool {
	fn, ok := mc.Fn.(*ssa.Function)
	if !ok || depth > 4 {
		return true
	}
	for i, b := range mc.Bindings {
		if b != v || i >= len(fn.FreeVars) {
			continue
		}
		fv := fn.FreeVars[i]
		if fv.Referrers() == nil {
			continue
		}
		for _, r := range *fv.Referrers() {
			switch x := r.(type) {
			case *ssa.Store:
				if x.Addr == ssa.Value(fv) {
					return true
				}
			case *ssa.MakeClosure:
				if closureWrites(x, fv, depth+1) {
					return true
				}
			case *ssa.UnOp, *ssa.DebugRef:
			case *ssa.Call, *ssa.Defer, *ssa.Go:
				return true // address passed on
			default:
				// FieldAddr/IndexAddr on the pointer value would need a load first; loads are UnOp
			}
		}
	}
	return false
}
