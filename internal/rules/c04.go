package rules

import (
	"fmt"
	"go/types"
	"sort"
	"strings"

	"golang.org/x/tools/go/ssa"

	"verif/ssvcheck/internal/core"
	"verif/ssvcheck/internal/ens"
)

const (
	ekmPkg  = ssv + "ekm"
	ekmN    = "ssv/ekm."
	ekmKM   = ekmPkg + ".(*ethKeyManagerSigner)."
	ekmSt   = ekmPkg + ".(*storage)."
	e2km    = "github.com/bloxapp/eth2-key-manager"
	e2kmN   = "eth2-key-manager/"
	signerP = e2km + "/signer"
	protP   = e2km + "/slashing_protection"
)

func init() {
	register(&Check{
		Prop: "C04",
		Pkgs: []string{"./..."},
		Explain: "That no two signatures ever produced for one share are slashable against each other — over every history of requests, restarts and re-registrations — is NOT decided: it quantifies over runtime histories and over what the database really persisted. Decided are the structural conditions that argument rests on, on the ssv source and on the pinned eth2-key-manager source it links: " +
			"(R1) wiring: the signer is a SimpleSigner built over NormalProtection over the node's own signer storage, and that same storage is the one AddShare/RemoveShare/Bump use; " +
			"(R2) routing: signBeaconObject hands an attestation (DomainAttester) only to SignBeaconAttestation and a block (DomainProposer) only to SignBeaconBlock/SignBlindedBeaconBlock, every other domain to the signer of its own object type; the only caller of SignBeaconObject derives the signing domain from the same domain type; ValidationKeySign is called in ssv only by SignRoot (SSV-domain roots) and in eth2-key-manager only by the per-object signers; " +
			"(R3) protection dominates signing (eth2-key-manager): in SignBeaconAttestation and SignBlock the per-account lock is taken, IsSlashable* returned no finding, and UpdateHighest* SUCCEEDED before ValidationKeySign; IsSlashableAttestation returns 'not slashable' only for found ∧ record≠nil ∧ source ≥ highest.source ∧ target > highest.target; IsSlashableProposal returns Valid only for found ∧ slot > highest; a missing or unreadable record is an error; " +
			"(R4) the record is durable and never lowered: storage.SaveHighest* reports success only when db.Set succeeded; RetrieveHighest* reports found without error only for a decoded, non-empty record; the protector's UpdateHighestAttestation stores only when no record exists or with components raised under a strict comparison; ekm's updateHighest* store the minimal record only when none exists or when the stored one is lower in every component; Save/RemoveHighest* are called only from those functions and RemoveShare; AddShare saves the key only after a successful bump; cluster reactivation bumps every reactivated share. " +
			"Not covered: Badger durability, the beacon node returning the right domain, the correctness of the far-future guards, lock liveness.",
		Rules: []string{
			"C04-R1 constructor wiring (NewETHKeyManagerSigner call arguments / struct literal)",
			"C04-R2 exit table of signBeaconObject (domain → signer method); who-may-call ValidationKeySign / SignBeaconObject; domain derivation at the call",
			"C04-R3 facts-before(ValidationKeySign) ⊇ {locked, unlock deferred, not slashable, ok(UpdateHighest*)}; accept exits of IsSlashable* ⊇ comparison facts",
			"C04-R4 accept exits of storage.SaveHighest* ⊇ ok(db.Set); found exits of RetrieveHighest* ⊇ decoded; monotone-store facts; who-may-call Save/RemoveHighest*; bump-before-save; forall bump on reactivation",
		},
		Trusted: []string{"Badger persists what Set acknowledged", "herumi BLS", "beacon node DomainData", "go/types + go/ssa"},
		Assume:  []string{"go.mod pins eth2-key-manager; the rules read the source the build links (module cache), so a version bump is re-analysed"},
		Run:     runC04,
		Setup: func(e *ens.Engine) {
			ra := "ssv/ekm.ethKeyManagerSigner.RetrieveHighestAttestation(p0, p1)"
			minA := "ssv/ekm.ethKeyManagerSigner.computeMinimalAttestationSP(p0, *)"
			e.Derived = append(e.Derived, ens.Derived{
				Func: ekmN + "ethKeyManagerSigner.updateHighestAttestation", Name: "absent-or-lower-in-both",
				Alts: [][]string{
					{"F(" + ra + "#1)"},
					{"isnil(" + ra + "#0)"},
					{"lt(" + ra + "#0.Source.Epoch, " + minA + ".Source.Epoch)", "lt(" + ra + "#0.Target.Epoch, " + minA + ".Target.Epoch)"},
				},
			})
			rp := "ssv/ekm.ethKeyManagerSigner.RetrieveHighestProposal(p0, p1)"
			e.Derived = append(e.Derived, ens.Derived{
				Func: ekmN + "ethKeyManagerSigner.updateHighestProposal", Name: "absent-or-lower",
				Alts: [][]string{
					{"F(" + rp + "#1)"},
					{"eq(0*, " + rp + "#0)"},
					{"lt(" + rp + "#0, ssv/ekm.ethKeyManagerSigner.computeMinimalProposerSP(p0, p2))"},
				},
			})
			hp := e2kmN + "core.SlashingStore.RetrieveHighestProposal(p0.store, p1)"
			e.Derived = append(e.Derived, ens.Derived{
				Func: e2kmN + "slashing_protection.NormalProtection.UpdateHighestProposal", Name: "absent-or-lower",
				Alts: [][]string{{"F(" + hp + "#1)"}, {"lt(" + hp + "#0, p2)"}},
			}, ens.Derived{
				Func: e2kmN + "slashing_protection.NormalProtection.UpdateHighestProposal", Name: "stored-or-already-covered",
				Alts: [][]string{{"ok(" + e2kmN + "core.SlashingStore.SaveHighestProposal(p0.store, p1, p2))"}, {"T(" + hp + "#1)", "le(p2, " + hp + "#0)"}},
			}, ens.Derived{
				Func: ekmN + "ethKeyManagerSigner.RemoveShare", Name: "key-deleted-or-absent",
				Alts: [][]string{{"ok(" + e2kmN + "core.Wallet.DeleteAccountByPublicKey(p0.wallet, p1))"}, {"isnil(" + e2kmN + "core.Wallet.AccountByPublicKey(p0.wallet, p1)#0)"}},
			})
			rs := e2kmN + "core.SlashingStore.RetrieveHighestAttestation(p0.store, p1)"
			e.Derived = append(e.Derived, ens.Derived{
				Func: e2kmN + "slashing_protection.NormalProtection.UpdateHighestAttestation", Name: "absent",
				Alts: [][]string{
					{"F(" + rs + "#1)"},
					{"isnil(" + rs + "#0)"},
				},
			})
		},
	})
}

func runC04(c *core.Ctx) {
	c04Wiring(c)
	c04Routing(c)
	c04Protection(c)
	c04Record(c)
}

// ---------------------------------------------------------------- R1
func c04Wiring(c *core.Ctx) {
	const rule = "C04-R1"
	f := fn(c, rule, ekmPkg+".NewETHKeyManagerSigner")
	if f == nil {
		return
	}
	a := c.E.Analyze(f)
	store := ekmN + "NewSignerStorage(p1, p2.Beacon, p0)"
	prot := e2kmN + "slashing_protection.NewNormalProtection(" + store + ")"
	n := 0
	for _, cs := range callsIn(f, e2kmN+"signer.NewSimpleSigner") {
		n++
		args := cs.Instr.Common().Args
		got := ""
		if len(args) == 3 {
			got = a.D.D(args[1]).String()
		}
		c.Decide(ens.Glob(prot, got), rule, "NewETHKeyManagerSigner|signer built over NormalProtection(signer storage)", c.P.Pos(cs.Instr.Pos()),
			"slashing protector = "+clip(got), "the SimpleSigner's slashing protector is "+got+", not NormalProtection over the node's signer storage")
	}
	c.Decide(n == 1, rule, "NewETHKeyManagerSigner|one SimpleSigner", c.P.Pos(f.Pos()), "one NewSimpleSigner call", fmt.Sprintf("%d NewSimpleSigner calls", n))
	// the returned key manager carries that signer, that protector and that storage
	exits, _ := a.Exits("err=nil")
	c.Min(rule, len(exits), 1, "NewETHKeyManagerSigner accept exits")
	for _, ex := range exits {
		lit := a.D.D(ex.Ret.Results[0]).String()
		for _, want := range []struct{ name, sub string }{
			{"signer", "signer: " + e2kmN + "signer.NewSimpleSigner("},
			{"storage", "storage: " + store},
			{"protector", "slashingProtector: " + prot},
		} {
			c.Decide(strings.Contains(lit, want.sub), rule, "NewETHKeyManagerSigner|returned."+want.name, c.P.Pos(ex.Ret.Pos()),
				"field "+want.name+" wired", "the returned key manager's "+want.name+" field is not "+want.sub+"…: "+clip(lit))
		}
	}
	// the wallet the signer signs from is opened from / saved to the same storage
	ensures(c, rule, ekmPkg+".NewETHKeyManagerSigner", "err=nil", []Req{
		{"wallet-opened-from-storage", "called(" + e2kmN + "core.WalletStorage.OpenWallet(" + store + "))", "the wallet must be opened from the signer storage"},
		{"new-wallet-saved-to-storage", "called(" + e2km[len("github.com/bloxapp/"):] + ".KeyVaultOptions.SetStorage(*, " + store + "))", "a fresh wallet must be created over the signer storage"},
	})
}

// ---------------------------------------------------------------- R2
// domain constant → the only signer method allowed on an accept exit, and the
// object type it is handed.
var c04Routes = []struct{ domain, methods, obj string }{
	{"DomainAttester", "SignBeaconAttestation", "*github.com/attestantio/go-eth2-client/spec/phase0.AttestationData"},
	{"DomainProposer", "SignBlindedBeaconBlock|SignBeaconBlock", ""},
	{"DomainVoluntaryExit", "SignVoluntaryExit", "*github.com/attestantio/go-eth2-client/spec/phase0.VoluntaryExit"},
	{"DomainAggregateAndProof", "SignAggregateAndProof", "*github.com/attestantio/go-eth2-client/spec/phase0.AggregateAndProof"},
	{"DomainSelectionProof", "SignSlot", "ssv-spec/types.SSZUint64"},
	{"DomainRandao", "SignEpoch", "ssv-spec/types.SSZUint64"},
	{"DomainSyncCommittee", "SignSyncCommittee", "ssv-spec/types.SSZBytes"},
	{"DomainSyncCommitteeSelectionProof", "SignSyncCommitteeSelectionData", "*github.com/attestantio/go-eth2-client/spec/altair.SyncAggregatorSelectionData"},
	{"DomainContributionAndProof", "SignSyncCommitteeContributionAndProof", "*github.com/attestantio/go-eth2-client/spec/altair.ContributionAndProof"},
	{"DomainApplicationBuilder", "SignRegistration", "*github.com/attestantio/go-eth2-client/api/v1.ValidatorRegistration"},
}

func c04Routing(c *core.Ctx) {
	const rule = "C04-R2"
	f := fn(c, rule, ekmKM+"signBeaconObject")
	if f != nil {
		a := c.E.Analyze(f)
		exits, _ := a.Exits("err=nil")
		seen := map[string]int{}
		for _, ex := range exits {
			// which signer methods succeeded on this path, and under which domain
			var oks []string
			dom := ""
			for k := range ex.Facts {
				if strings.HasPrefix(k, "ok("+e2kmN+"signer.ValidatorSigner.") {
					m := strings.TrimPrefix(k, "ok("+e2kmN+"signer.ValidatorSigner.")
					oks = append(oks, m[:strings.IndexAny(m, "(@")])
				}
				if strings.HasPrefix(k, "eq(global:ssv-spec/types.Domain") && strings.HasSuffix(k, ", p4)") {
					dom = strings.TrimSuffix(strings.TrimPrefix(k, "eq(global:ssv-spec/types."), ", p4)")
				}
			}
			sort.Strings(oks)
			where := c.P.Pos(ex.Ret.Pos())
			if dom == "" {
				c.Fail(rule, "signBeaconObject|accept exit without a domain case", where, "an accept exit is reachable without the domain type having been matched against a Domain* constant")
				continue
			}
			var route *struct{ domain, methods, obj string }
			for i := range c04Routes {
				if c04Routes[i].domain == dom {
					route = &c04Routes[i]
				}
			}
			if route == nil {
				c.Fail(rule, "signBeaconObject|"+dom, where, "accept exit for domain "+dom+", which has no entry in the routing table (new signing domain: decide whether it needs slashing protection)")
				continue
			}
			seen[dom]++
			okRoute := len(oks) == 1 && strings.Contains("|"+route.methods+"|", "|"+oks[0]+"|")
			c.Decide(okRoute, rule, "signBeaconObject|"+dom+"|signed by "+route.methods, where,
				"accept exit signed by "+strings.Join(oks, ","), fmt.Sprintf("under %s the object is signed by %v; only %s may sign it (the slashing check lives there)", dom, oks, route.methods))
			// the returned signature is that call's result
			sig := a.D.D(ex.Ret.Results[0]).String()
			c.Decide(len(oks) == 1 && strings.HasPrefix(sig, e2kmN+"signer.ValidatorSigner."+oks[0]), rule, "signBeaconObject|"+dom+"|returns that signature", where,
				"returns "+clip(sig), "the returned signature is "+clip(sig)+", not the result of the routed signer call")
			if route.obj != "" {
				_, typed := ex.Facts.Has("T(p1.(" + route.obj + ")#1)")
				c.Decide(typed, rule, "signBeaconObject|"+dom+"|object type", where, "object asserted to "+route.obj, "the object signed under "+dom+" is not asserted to be a "+route.obj)
			}
		}
		for _, r := range c04Routes {
			c.Decide(seen[r.domain] > 0, rule, "signBeaconObject|"+r.domain+"|routed", c.P.Pos(f.Pos()), fmt.Sprintf("%d accept exits", seen[r.domain]), "no accept exit for "+r.domain+" — the routing table and the switch disagree")
		}
	}
	// SignBeaconObject: lock, then delegate; the only caller derives the domain from the same type
	ensures(c, rule, ekmKM+"SignBeaconObject", "err=nil", []Req{
		{"delegates", "ok(" + ekmN + "ethKeyManagerSigner.signBeaconObject(p0, p1, p2, p3, p4))", "the exported entry only delegates, with unchanged arguments"},
	})
	t, names := methodTargets(c, rule, spec+"types.BeaconSigner.SignBeaconObject")
	if t != nil {
		sites := whoMayCall(c, rule, "BeaconSigner.SignBeaconObject", t, names, map[string]string{
			"ssv/protocol/v2/ssv/runner.BaseRunner.signBeaconObject": "the runners' single signing helper",
		})
		c.Min(rule, len(sites), 1, "SignBeaconObject call sites")
		for _, s := range sites {
			a := c.E.Analyze(s.Encl)
			args := s.Instr.Common().Args
			if len(args) != 4 {
				c.Undischarged(rule, "SignBeaconObject call|args", "unexpected arity")
				continue
			}
			dom := a.D.D(args[1]).String()
			dt := a.D.D(args[3]).String()
			c.Decide(ens.Glob("*.DomainData(*, "+dt+")#0", dom), rule, "signBeaconObject(runner)|domain derived from the same domain type", c.P.Pos(s.Instr.Pos()),
				"domain="+clip(dom)+" type="+dt, "the signing domain "+clip(dom)+" is not DomainData(…, "+dt+"): an object could be signed under a domain other than the one its slashing check is routed by")
			_, okd := a.FactsAt(s.Instr).Has("ok(" + strings.TrimSuffix(dom, "#0") + ")")
			c.Decide(okd, rule, "signBeaconObject(runner)|domain fetched", c.P.Pos(s.Instr.Pos()), "DomainData succeeded", "signing proceeds although DomainData failed")
		}
	}
	// callers of the runner helper: constant domain per call site, object type per domain
	c04RunnerCalls(c)
	// who may produce a raw validator-key signature
	c04RawSigners(c)
}

// expected (caller, domain) pairs of BaseRunner.signBeaconObject.
var c04RunnerSites = map[string]string{
	"ssv/protocol/v2/ssv/runner.AttesterRunner.ProcessConsensus|DomainAttester":                              "",
	"ssv/protocol/v2/ssv/runner.ProposerRunner.ProcessConsensus|DomainProposer":                              "",
	"ssv/protocol/v2/ssv/runner.ProposerRunner.executeDuty|DomainRandao":                                     "",
	"ssv/protocol/v2/ssv/runner.AggregatorRunner.ProcessConsensus|DomainAggregateAndProof":                   "",
	"ssv/protocol/v2/ssv/runner.AggregatorRunner.executeDuty|DomainSelectionProof":                           "",
	"ssv/protocol/v2/ssv/runner.SyncCommitteeRunner.ProcessConsensus|DomainSyncCommittee":                    "",
	"ssv/protocol/v2/ssv/runner.SyncCommitteeAggregatorRunner.ProcessConsensus|DomainContributionAndProof":   "",
	"ssv/protocol/v2/ssv/runner.SyncCommitteeAggregatorRunner.executeDuty|DomainSyncCommitteeSelectionProof": "",
	"ssv/protocol/v2/ssv/runner.ValidatorRegistrationRunner.executeDuty|DomainApplicationBuilder":            "",
	"ssv/protocol/v2/ssv/runner.VoluntaryExitRunner.executeDuty|DomainVoluntaryExit":                         "",
}

func c04RunnerCalls(c *core.Ctx) {
	const rule = "C04-R2"
	m, err := c.P.LookupFunc(runnerPkg + ".(*BaseRunner).signBeaconObject")
	if err != nil {
		c.Undischarged(rule, "anchor:BaseRunner.signBeaconObject", err.Error())
		return
	}
	sites := callersOf(c, mapOf(m), nil)
	seen := map[string]bool{}
	for _, s := range sites {
		a := c.E.Analyze(s.Encl)
		args := s.Instr.Common().Args
		dt := a.D.D(args[len(args)-1]).String()
		dom := strings.TrimPrefix(dt, "global:ssv-spec/types.")
		key := enclName(s.Encl) + "|" + dom
		seen[key] = true
		_, ok := c04RunnerSites[key]
		c.Decide(ok, rule, "runner signing site|"+key, c.P.Pos(s.Instr.Pos()), "known (runner, constant domain) pair",
			"signBeaconObject is called from "+enclName(s.Encl)+" with domain type "+dt+": not one of the confirmed (runner, domain) pairs — a non-constant or unexpected domain type decides which slashing check (if any) applies")
		// the static type of the object must be the one the domain's signer expects
		obj := args[2]
		if mi, ok := obj.(*ssa.MakeInterface); ok {
			ot := types.TypeString(mi.X.Type(), func(p *types.Package) string { return ens.ShortPkg(p.Path()) })
			for _, r := range c04Routes {
				if r.domain == dom && r.obj != "" {
					c.Decide(ot == r.obj, rule, "runner signing site|"+key+"|object type", c.P.Pos(s.Instr.Pos()), "object is "+ot, "object of type "+ot+" is signed under "+dom+", whose signer expects "+r.obj)
				}
			}
			if strings.Contains(ot, "AttestationData") || strings.Contains(ot, "BeaconBlock") {
				c.Decide(dom == "DomainAttester" || dom == "DomainProposer", rule, "runner signing site|"+key+"|slashable object under its own domain", c.P.Pos(s.Instr.Pos()), "", "a slashable object ("+ot+") is signed under "+dom)
			}
		}
	}
	for k := range c04RunnerSites {
		if !seen[k] {
			c.Undischarged(rule, "runner signing site|"+k, "confirmed call site no longer found: the table is stale")
		}
	}
}

func c04RawSigners(c *core.Ctx) {
	const rule = "C04-R2"
	// unprotected per-object signers of eth2-key-manager: they never see an attestation or a block
	allowed := map[string]string{
		e2kmN + "signer.SimpleSigner.SignBeaconAttestation":                 "protected (R3)",
		e2kmN + "signer.SimpleSigner.SignBlock":                             "protected (R3)",
		e2kmN + "signer.SimpleSigner.SignVoluntaryExit":                     "not a slashable object",
		e2kmN + "signer.SimpleSigner.SignAggregateAndProof":                 "not a slashable object",
		e2kmN + "signer.SimpleSigner.SignSlot":                              "not a slashable object",
		e2kmN + "signer.SimpleSigner.SignEpoch":                             "not a slashable object",
		e2kmN + "signer.SimpleSigner.SignBLSToExecutionChange":              "not a slashable object",
		e2kmN + "signer.SimpleSigner.SignSyncCommittee":                     "not a slashable object",
		e2kmN + "signer.SimpleSigner.SignSyncCommitteeSelectionData":        "not a slashable object",
		e2kmN + "signer.SimpleSigner.SignSyncCommitteeContributionAndProof": "not a slashable object",
		e2kmN + "signer.SimpleSigner.SignRegistration":                      "not a slashable object",
		ekmN + "ethKeyManagerSigner.SignRoot":                               "SSV-domain root (ComputeSigningRoot with the SSV signature domain), not a beacon object",
	}
	n := 0
	seen := map[string]bool{}
	var pkgs []string
	for p := range c.P.SSAPkgs {
		if strings.HasPrefix(p, e2km) {
			pkgs = append(pkgs, p)
		}
	}
	for _, pk := range c.P.NodePkgs {
		pkgs = append(pkgs, pk.PkgPath)
	}
	sort.Strings(pkgs)
	for _, p := range pkgs {
		for _, f := range c.P.SourceFuncs(p) {
			for _, b := range f.Blocks {
				for _, in := range b.Instrs {
					ci, ok := in.(ssa.CallInstruction)
					if !ok {
						continue
					}
					cc := ci.Common()
					name := ""
					if cc.IsInvoke() {
						name = cc.Method.Name()
					} else if sf := cc.StaticCallee(); sf != nil {
						name = sf.Name()
					}
					if name != "ValidationKeySign" {
						continue
					}
					n++
					encl := enclName(f)
					why, ok := allowed[encl]
					if !seen[encl] || !ok {
						c.Decide(ok, rule, "ValidationKeySign|caller "+encl, c.P.Pos(in.Pos()), "allow-listed: "+why, "the validator key signs in "+encl+", which is neither a slashing-protected signer nor a confirmed signer of a non-slashable object")
					}
					seen[encl] = true
				}
			}
		}
	}
	c.Min(rule, n, 12, "ValidationKeySign call sites")
	// SignRoot: the root it signs is domain-separated by the SSV signature domain
	atCalls(c, rule, ekmKM+"SignRoot", e2kmN+"core.ValidatorAccount.ValidationKeySign", []Req{
		{"ssv-domain-root", "ok(ssv-spec/types.ComputeSigningRoot(p1, ssv-spec/types.ComputeSignatureDomain(p0.domain, p2)))", "SignRoot signs only roots mixed with the SSV signature domain, which no beacon object root is"},
	})
	// the beacon-block entry points only delegate to SignBlock
	for _, m := range []string{"SignBeaconBlock", "SignBlindedBeaconBlock"} {
		ensures(c, rule, signerP+".(*SimpleSigner)."+m, "err=nil", []Req{
			{"via-SignBlock", "ok(" + e2kmN + "signer.SimpleSigner.SignBlock(p0, *, *, p2, p3))", "blocks are signed only through the protected SignBlock"},
		})
	}
}

// ---------------------------------------------------------------- R3
func c04Protection(c *core.Ctx) {
	const rule = "C04-R3"
	acct := e2kmN + "core.Wallet.AccountByPublicKey(p0.wallet, encoding/hex.EncodeToString(%s))#0"
	// attestation
	sa := signerP + ".(*SimpleSigner).SignBeaconAttestation"
	isA := e2kmN + "core.SlashingProtector.IsSlashableAttestation(p0.slashingProtector, p3, p1)"
	k := atCalls(c, rule, sa, e2kmN+"core.ValidatorAccount.ValidationKeySign", []Req{
		{"locked", "called(" + e2kmN + "signer.SimpleSigner.lock(p0, " + e2kmN + "core.ValidatorAccount.ID(" + fmt.Sprintf(acct, "p3") + "), \"attestation\"))", "check, update and sign must be one critical section per account"},
		{"unlock-deferred", "deferred(" + e2kmN + "signer.SimpleSigner.SignBeaconAttestation$1())", "the lock is held until return"},
		{"checked", "ok(" + isA + ")", "the slashing check must have succeeded"},
		{"not-slashable", "isnil(" + isA + "#0)", "a slashing finding refuses the signature"},
		{"record-updated", "ok(" + e2kmN + "core.SlashingProtector.UpdateHighestAttestation(p0.slashingProtector, p3, p1))", "the record must be persisted before the signature exists"},
		{"same-account", "ok(" + strings.TrimSuffix(fmt.Sprintf(acct, "p3"), "#0") + ")", "the signing account is the one looked up for the checked key"},
	})
	c.Decide(k == 1, rule, "SignBeaconAttestation|one signing site", "", "1 ValidationKeySign site", fmt.Sprintf("%d ValidationKeySign sites", k))
	c04SignedRoot(c, sa, "p1", "p2")
	// the deferred closure unlocks the same lock
	atCalls(c, rule, sa+"$1", e2kmN+"signer.SimpleSigner.unlock", nil)
	// block
	sb := signerP + ".(*SimpleSigner).SignBlock"
	isP := e2kmN + "core.SlashingProtector.IsSlashableProposal(p0.slashingProtector, p4, p2)"
	k = atCalls(c, rule, sb, e2kmN+"core.ValidatorAccount.ValidationKeySign", []Req{
		{"locked", "called(" + e2kmN + "signer.SimpleSigner.lock(p0, " + e2kmN + "core.ValidatorAccount.ID(" + fmt.Sprintf(acct, "p4") + "), \"proposal\"))", "check, update and sign must be one critical section per account"},
		{"unlock-deferred", "deferred(" + e2kmN + "signer.SimpleSigner.unlock(p0, *, \"proposal\"))", "the lock is held until return"},
		{"checked", "ok(" + isP + ")", "the slashing check must have succeeded"},
		{"valid", "eq(\"Valid\", " + isP + "#0.Status)", "only a Valid status may be signed"},
		{"record-updated", "ok(" + e2kmN + "core.SlashingProtector.UpdateHighestProposal(p0.slashingProtector, p4, p2))", "the record must be persisted before the signature exists"},
	})
	c.Decide(k == 1, rule, "SignBlock|one signing site", "", "1 ValidationKeySign site", fmt.Sprintf("%d ValidationKeySign sites", k))
	c04SignedRoot(c, sb, "p1", "p3")
	// callers of SignBlock pass the slot of the block they pass
	for _, m := range []string{"SignBeaconBlock", "SignBlindedBeaconBlock"} {
		f := fn(c, rule, signerP+".(*SimpleSigner)."+m)
		if f == nil {
			continue
		}
		a := c.E.Analyze(f)
		n := 0
		for _, cs := range callsIn(f, e2kmN+"signer.SimpleSigner.SignBlock") {
			n++
			args := cs.Instr.Common().Args
			blk, slot := a.D.D(args[1]).String(), a.D.D(args[2]).String()
			// the slot must be read from the same versioned block the root is taken of
			okv := strings.HasSuffix(slot, "BeaconBlock.Slot(p1)#0")
			for _, alt := range strings.Split(strings.TrimSuffix(strings.TrimPrefix(blk, "phi("), ")"), ", ") {
				okv = okv && strings.HasPrefix(alt, "p1.")
			}
			c.Decide(okv, rule, m+"|slot and block from the same object", c.P.Pos(cs.Instr.Pos()), "block="+clip(blk)+" slot="+clip(slot), "SignBlock is given slot "+slot+" for block "+blk+": the protected slot is not the signed block's slot")
		}
		c.Min(rule, n, 1, m+"→SignBlock")
	}
	// the protector's verdicts
	ra := e2kmN + "core.SlashingStore.RetrieveHighestAttestation(p0.store, p1)"
	ensures(c, rule, protP+".(*NormalProtection).IsSlashableAttestation", "r0=nil,err=nil", []Req{
		{"record-read", "ok(" + ra + ")", "an unreadable record refuses"},
		{"record-found", "T(" + ra + "#1)", "a missing record refuses"},
		{"record-non-nil", "nonnil(" + ra + "#0)", "an empty record refuses"},
		{"source-not-lower", "le(" + ra + "#0.Source.Epoch, p2.Source.Epoch)", "source must not be below the highest signed source"},
		{"target-strictly-higher", "lt(" + ra + "#0.Target.Epoch, p2.Target.Epoch)", "target must be strictly above the highest signed target"},
	})
	rp := e2kmN + "core.SlashingStore.RetrieveHighestProposal(p0.store, p1)"
	f := fn(c, rule, protP+".(*NormalProtection).IsSlashableProposal")
	if f != nil {
		a := c.E.Analyze(f)
		exits, _ := a.Exits("err=nil")
		nv := 0
		for _, ex := range exits {
			lit := a.D.D(ex.Ret.Results[0]).String()
			if !strings.Contains(lit, "Status: \"Valid\"") {
				if !strings.Contains(lit, "Status: \"") {
					c.Fail(rule, "IsSlashableProposal|status literal", c.P.Pos(ex.Ret.Pos()), "the returned status is not a literal with a constant Status: "+clip(lit))
				}
				continue
			}
			nv++
			for _, r := range []Req{
				{"record-read", "ok(" + rp + ")", "an unreadable record refuses"},
				{"record-found", "T(" + rp + "#1)", "a missing record refuses"},
				{"slot-strictly-higher", "lt(" + rp + "#0, p2)", "Valid only for a slot strictly above the highest signed slot"},
			} {
				_, ok := ex.Facts.Has(r.Pat)
				c.Decide(ok, rule, "IsSlashableProposal|Valid|"+r.Name, c.P.Pos(ex.Ret.Pos()), r.Pat, "status Valid is returned without "+r.Pat+" — "+r.Why)
			}
		}
		c.Decide(nv == 1, rule, "IsSlashableProposal|one Valid exit", c.P.Pos(f.Pos()), "1 Valid exit", fmt.Sprintf("%d exits return status Valid", nv))
	}
	// the protector's updates succeed only when the store accepted the record (or nothing had to change)
	ensures(c, rule, protP+".(*NormalProtection).UpdateHighestProposal", "err=nil", []Req{
		{"stored-or-already-covered", "or(stored-or-already-covered)", "the proposal slot must have been stored unless the stored slot already covers it"},
	})
	atCalls(c, rule, protP+".(*NormalProtection).UpdateHighestProposal", e2kmN+"core.SlashingStore.SaveHighestProposal", []Req{
		{"absent-or-lower", "or(absent-or-lower)", "the stored slot is replaced only by a higher one"},
	})
}

// c04SignedRoot: the root handed to ValidationKeySign is the signing root of
// the checked object under the given domain.
func c04SignedRoot(c *core.Ctx, fnSpec, obj, dom string) {
	const rule = "C04-R3"
	f := fn(c, rule, fnSpec)
	if f == nil {
		return
	}
	a := c.E.Analyze(f)
	for _, cs := range callsIn(f, e2kmN+"core.ValidatorAccount.ValidationKeySign") {
		args := cs.Instr.Common().Args
		got := a.D.D(args[len(args)-1]).String()
		want := e2kmN + "signer.ComputeETHSigningRoot(" + obj + ", " + dom + ")#0[:]"
		c.Decide(got == want, rule, short(fnSpec)+"|signs the checked object's root", c.P.Pos(cs.Instr.Pos()), got, "the signed bytes are "+got+", not the signing root of the object the slashing check saw ("+want+")")
	}
}

// ---------------------------------------------------------------- R4
func c04Record(c *core.Ctx) {
	const rule = "C04-R4"
	set := "ssv/storage/basedb.ReadWriter.Set(p0.db, "
	ensures(c, rule, ekmSt+"SaveHighestAttestation", "err=nil", []Req{
		{"persisted", "ok(" + set + ekmN + "storage.objPrefix(p0, \"signer_data-highest_att-\"), p1, *MarshalSSZ(p2)#0))", "success is reported only after the database accepted the marshalled record under the key's own entry"},
		{"marshalled", "ok(*AttestationData.MarshalSSZ(p2))", ""},
	})
	ensures(c, rule, ekmSt+"SaveHighestProposal", "err=nil", []Req{
		{"persisted", "ok(" + set + ekmN + "storage.objPrefix(p0, \"signer_data-highest_prop-\"), p1, github.com/ferranbt/fastssz.MarshalUint64(*, p2)))", "success is reported only after the database accepted the slot under the key's own entry"},
		{"non-zero", "ne(0*, p2)", ""},
	})
	get := "ssv/storage/basedb.Reader.Get(p0.db, " + ekmN + "storage.objPrefix(p0, \"%s\"), p1)"
	ga := fmt.Sprintf(get, "signer_data-highest_att-")
	ensures(c, rule, ekmSt+"RetrieveHighestAttestation", "r1=true,err=nil", []Req{
		{"read", "ok(" + ga + ")", ""},
		{"non-empty", "ne(0, len(" + ga + "#0.Value))", "an empty stored value is not a record"},
		{"decoded", "ok(*AttestationData.UnmarshalSSZ(*, " + ga + "#0.Value))", "found is reported only with a decoded record"},
	})
	gp := fmt.Sprintf(get, "signer_data-highest_prop-")
	ensures(c, rule, ekmSt+"RetrieveHighestProposal", "r1=true,err=nil", []Req{
		{"read", "ok(" + gp + ")", ""},
		{"non-empty", "ne(0, len(" + gp + "#0.Value))", "an empty stored value is not a record: reporting it as slot 0 would make every slot signable"},
	})
	// same key family on the read and the write side (writer/reader tables agree) — by the
	// literal prefixes above; the removal side too
	for _, m := range []struct{ name, prefix string }{{"RemoveHighestAttestation", "signer_data-highest_att-"}, {"RemoveHighestProposal", "signer_data-highest_prop-"}} {
		ensures(c, rule, ekmSt+m.name, "err=nil", []Req{
			{"deletes-own-entry", "ok(ssv/storage/basedb.ReadWriter.Delete(p0.db, " + ekmN + "storage.objPrefix(p0, \"" + m.prefix + "\"), p1))", ""},
		})
	}
	// never lowered — protector
	ua := protP + ".(*NormalProtection).UpdateHighestAttestation"
	rs := e2kmN + "core.SlashingStore.RetrieveHighestAttestation(p0.store, p1)"
	f := fn(c, rule, ua)
	if f != nil {
		a := c.E.Analyze(f)
		n := 0
		for _, cs := range callsIn(f, e2kmN+"core.SlashingStore.SaveHighestAttestation") {
			n++
			facts := a.FactsAt(cs.Instr)
			args := cs.Instr.Common().Args
			val := a.D.D(args[len(args)-1]).String()
			where := c.P.Pos(cs.Instr.Pos())
			switch val {
			case "p2":
				_, ok := facts.Has("or(absent)")
				c.Decide(ok, rule, "UpdateHighestAttestation|stores the request only when no record exists", where, "under or(absent)", "the requested attestation replaces an existing record unconditionally: the stored highest could be lowered")
			case rs + "#0":
				c.OK(rule, "UpdateHighestAttestation|stores the raised record", where, "stores the retrieved record (raised in place)")
			default:
				c.Fail(rule, "UpdateHighestAttestation|stored value", where, "stores "+val+", neither the request (when absent) nor the retrieved record raised in place")
			}
		}
		c.Decide(n == 2, rule, "UpdateHighestAttestation|save sites", c.P.Pos(f.Pos()), "2 SaveHighestAttestation sites", fmt.Sprintf("%d SaveHighestAttestation sites", n))
		// in-place raises happen only under a strict comparison of the same component
		fv, err := c.P.LookupField("github.com/attestantio/go-eth2-client/spec/phase0.Checkpoint.Epoch")
		if err != nil {
			c.Undischarged(rule, "anchor:Checkpoint.Epoch", err.Error())
		} else {
			ns := 0
			for _, st := range storesTo(f, fv) {
				ns++
				addr := a.D.D(st.Addr).String()
				val := a.D.D(st.Val).String()
				comp := ""
				for _, cand := range []string{"Source", "Target"} {
					if strings.Contains(addr, "#0."+cand+".Epoch") {
						comp = cand
					}
				}
				want := "lt(" + rs + "#0." + comp + ".Epoch, p2." + comp + ".Epoch)"
				_, ok := a.FactsAt(st).Has(want)
				ok = ok && comp != "" && val == "p2."+comp+".Epoch"
				c.Decide(ok, rule, "UpdateHighestAttestation|raise "+comp+" only upwards", c.P.Pos(st.Pos()), want, fmt.Sprintf("store %s := %s is not guarded by %s: a component of the highest record could be lowered", addr, val, want))
			}
			c.Decide(ns == 2, rule, "UpdateHighestAttestation|component stores", c.P.Pos(f.Pos()), "2 component stores", fmt.Sprintf("%d stores to Checkpoint.Epoch", ns))
		}
	}
	ensures(c, rule, ua, "err=nil", []Req{{"record-read", "ok(" + rs + ")", "an unreadable record refuses the update (and so the signature)"}})
	// never lowered — ekm bump
	kb := atCalls(c, rule, ekmKM+"updateHighestAttestation", e2kmN+"core.SlashingStore.SaveHighestAttestation", []Req{
		{"absent-or-lower-in-both", "or(absent-or-lower-in-both)", "the minimal record may replace the stored one only when none exists or when the stored one is lower in BOTH components — otherwise a component is lowered"},
		{"record-read", "ok(ssv/ekm.ethKeyManagerSigner.RetrieveHighestAttestation(p0, p1))", "an unreadable record must not be overwritten"},
	})
	kb += atCalls(c, rule, ekmKM+"updateHighestProposal", e2kmN+"core.SlashingStore.SaveHighestProposal", []Req{
		{"absent-or-lower", "or(absent-or-lower)", "the minimal slot may replace the stored one only when none exists or the stored one is lower"},
		{"record-read", "ok(ssv/ekm.ethKeyManagerSigner.RetrieveHighestProposal(p0, p1))", "an unreadable record must not be overwritten"},
	})
	c.Min(rule, kb, 2, "record saves in the ekm bump functions")
	nb := 0
	defer func() { c.Min(rule, nb, 2, "saved values checked in the ekm bump functions") }()
	for _, m := range []string{"updateHighestAttestation", "updateHighestProposal"} {
		f := fn(c, rule, ekmKM+m)
		if f == nil {
			continue
		}
		a := c.E.Analyze(f)
		for _, cs := range callsIn(f, e2kmN+"core.SlashingStore.SaveHighest*") {
			nb++
			args := cs.Instr.Common().Args
			val := a.D.D(args[len(args)-1]).String()
			c.Decide(strings.HasPrefix(val, "ssv/ekm.ethKeyManagerSigner.computeMinimal"), rule, m+"|stores the computed minimal record", c.P.Pos(cs.Instr.Pos()), val, "stores "+val+" instead of the computed minimal record")
			key := a.D.D(args[0]).String()
			c.Decide(key == "p1", rule, m+"|stores under the bumped key", c.P.Pos(cs.Instr.Pos()), key, "stores under "+key+", not the key being bumped")
		}
		ensures(c, rule, ekmKM+m, "err=nil", []Req{
			{"read", "ok(ssv/ekm.ethKeyManagerSigner.RetrieveHighest*(p0, p1))", ""},
		})
	}
	// the minimal record is ahead of now, source = target-1
	ensures(c, rule, ekmKM+"computeMinimalProposerSP", "any", nil)
	c04Minimal(c)
	ensures(c, rule, ekmKM+"BumpSlashingProtection", "err=nil", []Req{
		{"attestation-bumped", "ok(" + ekmN + "ethKeyManagerSigner.updateHighestAttestation(p0, p1, *EstimatedCurrentSlot(*)))", ""},
		{"proposal-bumped", "ok(" + ekmN + "ethKeyManagerSigner.updateHighestProposal(p0, p1, *EstimatedCurrentSlot(*)))", ""},
	})
	// a key becomes signable only after its record was bumped
	k := atCalls(c, rule, ekmKM+"AddShare", ekmN+"ethKeyManagerSigner.saveShare", []Req{
		{"bumped-first", "ok(" + ekmN + "ethKeyManagerSigner.BumpSlashingProtection(p0, github.com/herumi/bls-eth-go-binary/bls.PublicKey.Serialize(github.com/herumi/bls-eth-go-binary/bls.SecretKey.GetPublicKey*(p1))))", "the share's own public key is bumped before the key is saved"},
		{"absent", "isnil(" + e2kmN + "core.Wallet.AccountByPublicKey(p0.wallet, *)#0)", "only a key not yet in the wallet is added"},
	})
	c.Min(rule, k, 1, "saveShare in AddShare")
	// the bump is a read-decide-write sequence on the record: it must not interleave with signing.
	// Signing holds walletLock.RLock (below); the bump in AddShare must hold the write lock and run
	// only for a key that is not in the wallet (an absent key cannot be signing).
	lookup := e2kmN + "core.Wallet.AccountByPublicKey(p0.wallet, github.com/herumi/bls-eth-go-binary/bls.PublicKey.SerializeToHexStr(github.com/herumi/bls-eth-go-binary/bls.SecretKey.GetPublicKey*(p1)))"
	k = atCalls(c, rule, ekmKM+"AddShare", ekmN+"ethKeyManagerSigner.BumpSlashingProtection", []Req{
		{"under-wallet-write-lock", "called(sync.RWMutex.Lock(p0.walletLock))", "the bump must exclude concurrent signing (which holds the read lock)"},
		{"unlock-deferred", "deferred(sync.RWMutex.Unlock(p0.walletLock))", "the write lock is held until AddShare returns"},
		{"only-for-an-absent-key", "isnil(" + lookup + "#0)", "a key already in the wallet may be signing: its record must not be rewritten by a bump"},
	})
	c.Min(rule, k, 1, "bump in AddShare")
	// the existence lookup uses the key form the wallet indexes accounts by (hex of the serialised
	// public key): with any other form the lookup never matches and every AddShare re-bumps and re-adds
	if f := fn(c, rule, ekmKM+"AddShare"); f != nil {
		a := c.E.Analyze(f)
		n := 0
		for _, cs := range callsIn(f, e2kmN+"core.Wallet.AccountByPublicKey") {
			n++
			got := a.D.Call(cs.Instr).String()
			c.Decide(ens.Glob(lookup, got), rule, "AddShare|existence lookup by hex(serialised public key)", c.P.Pos(cs.Instr.Pos()), got,
				"AddShare looks the account up by "+got+"; the wallet indexes accounts by hex.EncodeToString(ValidatorPublicKey()) — with another key form the lookup never matches, so a repeated AddShare re-bumps the record and stores a second account")
		}
		c.Decide(n == 1, rule, "AddShare|one existence lookup", c.P.Pos(f.Pos()), "", fmt.Sprintf("%d AccountByPublicKey calls", n))
	}
	for _, w := range []string{e2km + "/wallets/nd.(*Wallet).AddValidatorAccount", e2km + "/wallets/hd.(*Wallet).AddValidatorAccount"} {
		if f := fn(c, rule, w); f != nil {
			a := c.E.Analyze(f)
			n := 0
			for _, b := range f.Blocks {
				for _, in := range b.Instrs {
					mu, ok := in.(*ssa.MapUpdate)
					if !ok || !strings.HasSuffix(a.D.D(mu.Map).String(), ".indexMapper") {
						continue
					}
					n++
					key := a.D.D(mu.Key).String()
					c.Decide(ens.Glob("encoding/hex.EncodeToString(*ValidatorPublicKey(p1))", key), rule, short(w)+"|index key = hex(validator public key)", c.P.Pos(mu.Pos()), key, "the wallet indexes accounts by "+key)
				}
			}
			c.Min(rule, n, 1, short(w)+" index write")
		}
	}
	// signing holds the wallet read lock for the whole routed call
	for _, m := range []string{"SignBeaconAttestation", "SignBeaconBlock", "SignBlindedBeaconBlock"} {
		atCalls(c, rule, ekmKM+"signBeaconObject", e2kmN+"signer.ValidatorSigner."+m, []Req{
			{"under-wallet-read-lock", "called(sync.RWMutex.RLock(p0.walletLock))", "signing and bumping exclude each other through walletLock"},
			{"unlock-deferred", "deferred(sync.RWMutex.RUnlock(p0.walletLock))", ""},
		})
	}
	wt, wn := methodTargets(c, rule, e2km+"/core.Wallet.CreateValidatorAccountFromPrivateKey")
	if wt != nil {
		whoMayCall(c, rule, "Wallet.CreateValidatorAccountFromPrivateKey", wt, wn, map[string]string{
			ekmN + "ethKeyManagerSigner.saveShare": "reached only from AddShare after the bump",
		})
	}
	m, err := c.P.LookupFunc(ekmKM + "saveShare")
	if err == nil {
		for _, s := range callersOf(c, mapOf(m), nil) {
			c.Decide(enclName(s.Encl) == ekmN+"ethKeyManagerSigner.AddShare", rule, "saveShare|caller "+enclName(s.Encl), c.P.Pos(s.Instr.Pos()), "AddShare", "saveShare is reached from "+enclName(s.Encl)+" without the bump AddShare performs")
		}
	}
	// reactivation: every reactivated share is bumped before the handler accepts
	ensures(c, rule, ehPkg+".(*EventHandler).handleClusterReactivated", "err=nil", []Req{
		{"all-bumped", "forall(ok(" + ekmN + "StorageProvider.BumpSlashingProtection(p0.keyManager.(" + ekmN + "StorageProvider)*, *processClusterEvent(p0, p1, p2.Owner, p2.OperatorIds, false)#0[_].*SharePubKey)))", "every share returned for reactivation is bumped"},
	})
	// who may write / remove the record
	for _, w := range []struct {
		method string
		allow  map[string]string
	}{
		{"SaveHighestAttestation", map[string]string{
			e2kmN + "slashing_protection.NormalProtection.UpdateHighestAttestation": "monotone update before signing",
			ekmN + "ethKeyManagerSigner.updateHighestAttestation":                   "bump to the minimal record",
		}},
		{"SaveHighestProposal", map[string]string{
			e2kmN + "slashing_protection.NormalProtection.UpdateHighestProposal": "update before signing (after slot > highest was established by the caller)",
			ekmN + "ethKeyManagerSigner.updateHighestProposal":                   "bump to the minimal slot",
		}},
		{"RemoveHighestAttestation", map[string]string{ekmN + "ethKeyManagerSigner.RemoveShare": "the key is deleted in the same call"}},
		{"RemoveHighestProposal", map[string]string{ekmN + "ethKeyManagerSigner.RemoveShare": "the key is deleted in the same call"}},
	} {
		c04WhoCallsStore(c, w.method, w.allow)
	}
	// RemoveShare removes the records only together with the key
	ensures(c, rule, ekmKM+"RemoveShare", "err=nil", []Req{
		{"key-deleted-or-absent", "or(key-deleted-or-absent)", "records are removed only when the key is removed too"},
	})
}

// c04WhoCallsStore: call sites (by method name on any store-like receiver) in
// ssv node packages and eth2-key-manager.
func c04WhoCallsStore(c *core.Ctx, method string, allow map[string]string) {
	const rule = "C04-R4"
	var pkgs []string
	for p := range c.P.SSAPkgs {
		if strings.HasPrefix(p, e2km) {
			pkgs = append(pkgs, p)
		}
	}
	for _, pk := range c.P.NodePkgs {
		pkgs = append(pkgs, pk.PkgPath)
	}
	sort.Strings(pkgs)
	n := 0
	seen := map[string]bool{}
	for _, p := range pkgs {
		for _, f := range c.P.SourceFuncs(p) {
			for _, b := range f.Blocks {
				for _, in := range b.Instrs {
					ci, ok := in.(ssa.CallInstruction)
					if !ok {
						continue
					}
					cc := ci.Common()
					name := ""
					if cc.IsInvoke() {
						name = cc.Method.Name()
					} else if sf := cc.StaticCallee(); sf != nil {
						name = sf.Name()
					}
					if name != method {
						continue
					}
					encl := enclName(f)
					// a storage wrapper forwarding the same call to an inner store is transparent
					if strings.HasSuffix(encl, "."+method) {
						continue
					}
					n++
					why, ok := allow[encl]
					if !seen[encl] || !ok {
						c.Decide(ok, rule, method+"|caller "+encl, c.P.Pos(in.Pos()), "allow-listed: "+why, method+" is called from "+encl+", which is not one of the functions allowed to change the slashing record ("+strings.Join(keys(allow), ", ")+")")
					}
					seen[encl] = true
				}
			}
		}
	}
	c.Min(rule, n, len(allow), method+" call sites")
}

// c04Minimal: the minimal records are computed ahead of the current time.
func c04Minimal(c *core.Ctx) {
	const rule = "C04-R4"
	f := fn(c, rule, ekmKM+"computeMinimalAttestationSP")
	if f != nil {
		a := c.E.Analyze(f)
		exits, _ := a.Exits("any")
		for _, ex := range exits {
			lit := a.D.D(ex.Ret.Results[0]).String()
			ok := strings.Contains(lit, "Target: new:") && strings.Contains(lit, "Epoch: (p1 + ") && strings.Contains(lit, "Source: new:") && strings.Contains(lit, " - 1")
			c.Decide(ok, rule, "computeMinimalAttestationSP|target=epoch+gap, source=target-1", c.P.Pos(ex.Ret.Pos()), clip(lit), "the minimal attestation record is "+clip(lit)+": not (source = target-1, target = epoch + gap)")
		}
	}
	f = fn(c, rule, ekmKM+"computeMinimalProposerSP")
	if f != nil {
		a := c.E.Analyze(f)
		exits, _ := a.Exits("any")
		for _, ex := range exits {
			v := a.D.D(ex.Ret.Results[0]).String()
			c.Decide(strings.HasPrefix(v, "(p1 + "), rule, "computeMinimalProposerSP|slot+gap", c.P.Pos(ex.Ret.Pos()), v, "the minimal proposal slot is "+v+", not slot + gap")
		}
	}
}
