package rules

import (
	"fmt"
	"strings"

	"verif/ssvcheck/internal/core"
	"verif/ssvcheck/internal/ens"
)

func init() {
	register(&Check{
		Prop: "C15",
		Pkgs: []string{"./..."},
		Setup: func(e *ens.Engine) {
			qbftSetup(e)
			e.Derived = append(e.Derived,
				ens.Derived{Func: "ssv/protocol/v2/ssv/runner.BaseRunner.ShouldProcessDuty", Name: "newer-slot-or-fresh",
					Alts: [][]string{{"lt(p0.QBFTController.Height, p1.Slot)"}, {"eq(0, p0.QBFTController.Height)"}, {"eq(0:Height, p0.QBFTController.Height)"}}},
				ens.Derived{Func: "ssv/protocol/v2/qbft/controller.Controller.UponDecided", Name: "height-covers-decided",
					Alts: [][]string{{"stored(p0.Height, p2.Message.Height)"}, {"le(p2.Message.Height, p0.Height)"}}},
				ens.Derived{Func: "ssv/protocol/v2/ssv/validator.Validator.Start", Name: "highest-loaded-or-no-controller",
					Alts: [][]string{{"called(ssv/protocol/v2/qbft/controller.Controller.LoadHighestInstance(*))"}, {"isnil(*.QBFTController)"}}},
			)
		},
		Explain: "Histories with restarts at arbitrary points and durability are NOT decided. Decided: " +
			"(R1) who-may-write Controller.Height with monotonicity facts: StartNewInstance writes it only under ¬(height < c.Height) and no existing instance for that height; UponDecided only under msg.Height > c.Height; LoadHighestInstance sets it from the stored highest instance; nobody else writes it; " +
			"(R2) duties reach executeDuty only under ShouldProcessDuty (refusal on Height ≥ slot unless Height==0), StartNewInstance is called only from BaseRunner.decide with Height(duty.Slot); " +
			"(R3) Controller.SaveInstance stores as highest only under msg.Height ≥ c.Height and history-only otherwise; the three ibft storage wrappers pass the flag pairs (history,highest) = (true,false)/(false,true)/(true,true); saveInstance writes the highest key iff asHighest and the historical key iff toHistory; GetHighestInstance reads that same key; a decided certificate replaces a stored one only with strictly more signers (C02-R2); " +
			"(R4) Validator.Start loads the highest instance of every runner that has a controller before its queue consumer goroutine starts; LoadHighestInstance re-inserts the loaded instance.",
		Rules: []string{
			"C15-R1 who-may-write(Controller.Height) + monotonicity facts at each write",
			"C15-R2 Ens(ShouldProcessDuty|ok); who-may-call(StartNewInstance)",
			"C15-R3 facts-before(SaveHighest*/SaveInstance) in Controller.SaveInstance; wrapper flag table; key/flag agreement in ibftStorage.saveInstance",
			"C15-R4 facts-before(go StartQueueConsumer) ∋ LoadHighestInstance called (or no controller)",
		},
		Trusted: []string{"Badger durability", "go/types + go/ssa"},
		Run:     runC15,
	})
}

func runC15(c *core.Ctx) {
	ctrl := ctrlPkg + ".(*Controller)."
	// ---------------- R1
	ws := whoMayWrite(c, "C15-R1", ctrlPkg+".Controller.Height", map[string]string{
		cN + "Controller.StartNewInstance":    "new duty height (monotone, unused)",
		cN + "Controller.UponDecided":         "future decided bumps height",
		cN + "Controller.LoadHighestInstance": "restart: resume from stored highest",
	})
	c.Min("C15-R1", len(ws), 3, "writers of Controller.Height")
	atStores(c, "C15-R1", ctrl+"StartNewInstance", ctrlPkg+".Controller.Height", []Req{
		{"not-below-current", "le(p0.Height, p2)", "an instance below the current height must be refused"},
		{"height-unused", "isnil(" + cN + "InstanceContainer.FindInstance(p0.StoredInstances, p2))", "a height that already has an instance must not be started again"},
		{"value-valid", "ok(dyn[ssv/protocol/v2/qbft.IConfig.GetValueCheckF(p0.config)](p3))", ""},
	})
	atStores(c, "C15-R1", ctrl+"UponDecided", ctrlPkg+".Controller.Height", []Req{
		{"future-only", "lt(p0.Height, p2.Message.Height)", "a decided message may only raise the height"},
	})
	// every accepted decided message leaves the controller at or above its height — whichever branch
	// (new instance, undecided instance, already decided instance) handled it: otherwise a height the
	// node has learned to be decided can be started again
	ensures(c, "C15-R1", ctrl+"UponDecided", "err=nil", []Req{
		{"height-covers-decided", "or(height-covers-decided)", "after an accepted decided message for height h the controller height must be ≥ h on every path"},
	})
	// … and also on error exits taken AFTER the decided instance was recorded (a failed store write
	// must not leave a learned-decided height startable)
	nx := ensuresIf(c, "C15-R1", ctrl+"UponDecided", "any", "the decided message was validated", "ok("+cN+"ValidateDecided(p0.config, p2, p0.Share))", []Req{
		{"height-covers-decided", "or(height-covers-decided)", "once a decided message is validated (and so recorded by one of the three branches), every exit — error exits included — leaves the controller height ≥ its height"},
	})
	c.Min("C15-R1", nx, 1, "exits of UponDecided after validation")
	ensures(c, "C15-R1", ctrl+"LoadHighestInstance", "r0=nonnil,err=nil", []Req{
		{"height-from-stored", "stored(p0.Height, " + cN + "Controller.getHighestInstance(p0, p1[:])#0.State.Height)", "after restart the controller resumes with the stored highest height"},
		{"re-inserted", "called(" + cN + "InstanceContainer.addNewInstance(p0.StoredInstances, " + cN + "Controller.getHighestInstance(p0, p1[:])#0))", "the loaded instance must be put back so that its height counts as used"},
	})
	ensures(c, "C15-R1", ctrl+"getHighestInstance", "r0=nonnil,err=nil", []Req{
		{"from-store", "ok(ssv/protocol/v2/qbft/storage.InstanceStore.GetHighestInstance(ssv/protocol/v2/qbft.IConfig.GetStorage(p0.config), p1))", "the highest instance comes from the store's highest record"},
	})

	// ---------------- R2
	ensures(c, "C15-R2", runnerPkg+".(*BaseRunner).ShouldProcessDuty", "err=nil", []Req{
		{"newer-slot-or-fresh", "or(newer-slot-or-fresh)", "duties at or below the current height must be refused (unless nothing ran yet)"},
	})
	if tf, err := c.P.LookupFunc(ctrl + "StartNewInstance"); err == nil {
		sites := whoMayCall(c, "C15-R2", "Controller.StartNewInstance", mapOf(tf), nil, map[string]string{
			"ssv/protocol/v2/ssv/runner.BaseRunner.decide": "the only way a runner starts consensus",
		})
		c.Min("C15-R2", len(sites), 1, "StartNewInstance call sites")
	} else {
		c.Undischarged("C15-R2", "anchor:StartNewInstance", err.Error())
	}
	if f := fn(c, "C15-R2", runnerPkg+".(*BaseRunner).decide"); f != nil {
		for _, s := range callsIn(f, cN+"Controller.StartNewInstance") {
			n := s.Arg(c, 2).String()
			c.Decide(n == "p3.Duty.Slot", "C15-R2", "decide|instance height = duty slot", c.P.Pos(s.Instr.Pos()), n, "the consensus height is "+n+", not the duty's slot: slot-based refusal of old duties would not apply")
		}
	}
	// who starts duties: the runners' StartNewDuty go through baseStartNew*Duty
	for t := range postConsensusSites {
		k := atCalls(c, "C15-R2", runnerMethod(t, "StartNewDuty"), "ssv/protocol/v2/ssv/runner.BaseRunner.baseStartNewDuty", nil)
		c.Min("C15-R2", k, 1, t+".StartNewDuty → baseStartNewDuty")
	}

	// ---------------- R3
	si := ctrl + "SaveInstance"
	k := 0
	for _, m := range []string{"SaveHighestAndHistoricalInstance", "SaveHighestInstance"} {
		k += atCalls(c, "C15-R3", si, "ssv/protocol/v2/qbft/storage.InstanceStore."+m, []Req{
			{"not-below-current", "le(p0.Height, p2.Message.Height)", "only a certificate at or above the controller height may replace the highest record"},
		})
	}
	k += atCalls(c, "C15-R3", si, "ssv/protocol/v2/qbft/storage.InstanceStore.SaveInstance", []Req{
		{"history-only-when-older", "lt(p2.Message.Height, p0.Height)", "an older certificate is stored as history only"},
		{"full-node", "T(p0.fullNode)", ""},
	})
	c.Min("C15-R3", k, 3, "store calls in Controller.SaveInstance")
	// wrapper flag table
	wr := map[string]string{"SaveInstance": "true, false", "SaveHighestInstance": "false, true", "SaveHighestAndHistoricalInstance": "true, true"}
	for m, flags := range wr {
		f := fn(c, "C15-R3", ssv+"ibft/storage.(*ibftStorage)."+m)
		if f == nil {
			continue
		}
		sites := callsIn(f, "ssv/ibft/storage.ibftStorage.saveInstance")
		if len(sites) != 1 {
			c.Undischarged("C15-R3", "ibftStorage."+m+"|saveInstance call", fmt.Sprintf("expected one call, found %d", len(sites)))
			continue
		}
		n := c.E.Analyze(f).D.Call(sites[0].Instr).String()
		want := "ssv/ibft/storage.ibftStorage.saveInstance(p0, p1, " + flags + ")"
		c.Decide(n == want, "C15-R3", "ibftStorage."+m+"|(toHistory, asHighest)", c.P.Pos(sites[0].Instr.Pos()), n,
			fmt.Sprintf("%s calls %s, the table says %s: a history-only save must never overwrite the highest record (and vice versa)", m, n, want))
	}
	sv := ssv + "ibft/storage.(*ibftStorage).saveInstance"
	if f := fn(c, "C15-R3", sv); f != nil {
		a := c.E.Analyze(f)
		nh, nhist := 0, 0
		for _, s := range callsIn(f, "ssv/ibft/storage.ibftStorage.save") {
			node := a.D.Call(s.Instr).String()
			facts := a.FactsAt(s.Instr)
			switch {
			case strings.Contains(node, "\"highest_instance\""):
				nh++
				_, ok := facts.Has("T(p3)")
				c.Decide(ok, "C15-R3", "saveInstance|highest key iff asHighest", c.P.Pos(s.Instr.Pos()), "under asHighest", "the highest record is written although asHighest is not set")
			case strings.Contains(node, "\"instance\""):
				nhist++
				_, ok := facts.Has("T(p2)")
				c.Decide(ok, "C15-R3", "saveInstance|historical key iff toHistory", c.P.Pos(s.Instr.Pos()), "under toHistory", "the historical record is written although toHistory is not set")
			default:
				c.Fail("C15-R3", "saveInstance|unknown key", c.P.Pos(s.Instr.Pos()), "save with an unexpected key: "+clip(node))
			}
		}
		c.Decide(nh == 1 && nhist == 1, "C15-R3", "saveInstance|one write per key", c.P.Pos(f.Pos()), "1+1", fmt.Sprintf("expected one highest and one historical write, found %d and %d", nh, nhist))
	}
	if f := fn(c, "C15-R3", ssv+"ibft/storage.(*ibftStorage).GetHighestInstance"); f != nil {
		sites := callsIn(f, "ssv/ibft/storage.ibftStorage.get")
		ok := len(sites) == 1 && strings.Contains(c.E.Analyze(f).D.Call(sites[0].Instr).String(), "\"highest_instance\"")
		c.Decide(ok, "C15-R3", "GetHighestInstance|reads the highest key", c.P.Pos(f.Pos()), "reads highest_instance", "GetHighestInstance does not read the key SaveHighestInstance writes")
	}

	// ---------------- R4
	vs := ssv + "protocol/v2/ssv/validator.(*Validator).Start"
	if f := fn(c, "C15-R4", vs); f != nil {
		n := 0
		n += atCalls(c, "C15-R4", vs, "ssv/protocol/v2/ssv/validator.Validator.StartQueueConsumer", []Req{
			{"highest-loaded-first", "or(highest-loaded-or-no-controller)", "messages must not be consumed before the stored highest height is loaded (otherwise an already decided slot can be started again after a restart)"},
		})
		c.Min("C15-R4", n, 1, "queue consumer start sites in Validator.Start")
	}
}
