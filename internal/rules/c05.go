package rules

import (
	"fmt"
	"go/types"
	"golang.org/x/tools/go/ssa"
	"strings"

	"verif/ssvcheck/internal/core"
	"verif/ssvcheck/internal/ens"
)

type submitSite struct {
	runner, method string
	callee         string // interface method name
	stage          string // Pre | Post
	sigArg         int    // index of the argument that carries the signature (invoke args, receiver excluded)
	decidedObject  bool   // the submitted object must slice back to State.DecidedValue
	setsFinished   bool
}

// Hand-confirmed table of every beacon-node call that consumes a
// reconstructed validator signature.
var submitSites = []submitSite{
	{"AttesterRunner", "ProcessPostConsensus", "SubmitAttestation", "Post", 0, true, true},
	{"ProposerRunner", "ProcessPostConsensus", "SubmitBlindedBeaconBlock", "Post", 1, true, true},
	{"ProposerRunner", "ProcessPostConsensus", "SubmitBeaconBlock", "Post", 1, true, true},
	{"AggregatorRunner", "ProcessPostConsensus", "SubmitSignedAggregateSelectionProof", "Post", 0, true, true},
	{"SyncCommitteeRunner", "ProcessPostConsensus", "SubmitSyncMessage", "Post", 0, true, true},
	{"SyncCommitteeAggregatorRunner", "ProcessPostConsensus", "SubmitSignedContributionAndProof", "Post", 0, true, true},
	{"ValidatorRegistrationRunner", "ProcessPreConsensus", "SubmitValidatorRegistration", "Pre", 2, false, true},
	{"VoluntaryExitRunner", "ProcessPreConsensus", "SubmitVoluntaryExit", "Pre", 0, false, true},
	{"AggregatorRunner", "ProcessPreConsensus", "SubmitAggregateSelectionProof", "Pre", 4, false, false},
	// consumers of a reconstructed pre-consensus proof that are not called Submit*
	{"ProposerRunner", "ProcessPreConsensus", "GetBlindedBeaconBlock", "Pre", 2, false, false},
	{"ProposerRunner", "ProcessPreConsensus", "GetBeaconBlock", "Pre", 2, false, false},
	{"SyncCommitteeAggregatorRunner", "ProcessPreConsensus", "IsSyncCommitteeAggregator", "Pre", 0, false, false},
}

func init() {
	register(&Check{
		Prop: "C05",
		Pkgs: []string{"./..."},
		Explain: "Decides structural necessary conditions of 'only validly threshold-signed objects reach the beacon node, once': " +
			"(R1) who-may-call: every BeaconNode.Submit* method is invoked only from the Process{Pre,Post}Consensus method of the matching runner (hand-confirmed table of 9 Submit sites + 3 other consumers of a reconstructed proof); " +
			"(R2) must-pass-through + provenance: every such call is preceded on all paths by a successful State.ReconstructBeaconSig over the runner's own container and the share's ValidatorPubKey, whose success implies VerifyReconstructedSignature → bls VerifyByte against that key and root; the signature argument slices back to that reconstruction and post-consensus objects slice back to State.DecidedValue; " +
			"(R3) every such call is preceded by quorum==true of base{Pre,Post}ConsensusMsgProcessing, whose quorum exit guarantees running duty, (post:) decided value and decided instance, slot equality, signer ∈ committee and expected roots; the quorum report in basePartialSigMsgProcessing is edge-triggered (hasQuorum ∧ ¬prevQuorum) and duplicates go through resolveDuplicateSignature; " +
			"(R4) every successful exit that passed the quorum branch has stored Finished=true, and every exit on which reconstruction failed has called FallBackAndVerifyEachSignature. " +
			"NOT decided: Lagrange reconstruction arithmetic, BLS soundness, liveness ('cannot prevent submission') over arrival orders, at-most-once over all histories (only Finished/edge-trigger shape).",
		Rules: []string{
			"C05-R1 who-may-call(BeaconNode.Submit*) = site table",
			"C05-R2 facts-before(site) ⊇ {ok(ReconstructBeaconSig(own container, root, Share.ValidatorPubKey)), ok(VerifyReconstructedSignature), T(VerifyByte)}; slice(sig arg) ∋ ReconstructBeaconSig; slice(object) ∋ DecidedValue",
			"C05-R3 facts-before(site) ⊇ {quorum}; Ens(base*MsgProcessing|quorum) ⊇ validation facts; edge trigger",
			"C05-R4 Ens(Process*|nil ∧ quorum) ∋ stored(Finished,true); Ens(Process*|err ∧ fail(Reconstruct)) ∋ called(FallBackAndVerifyEachSignature)",
		},
		Trusted: []string{"go/types + go/ssa", "herumi BLS VerifyByte", "hand-confirmed site table (internal/rules/c05.go)"},
		Assume:  []string{"facts are not killed by intervening writes (reviewed: containers are only appended/evicted by the anchored helpers)"},
		Run:     runC05,
	})
}

func runC05(c *core.Ctx) {
	// ---------------- R1
	subs := ifaceMethods(c, "C05-R1", spec+"ssv.BeaconNode", "Submit*")
	c.Min("C05-R1", len(subs), 9, "BeaconNode.Submit* interface methods")
	allowed := map[string]map[string]bool{}
	for _, s := range submitSites {
		k := "ssv/protocol/v2/ssv/runner." + s.runner + "." + s.method
		if allowed[k] == nil {
			allowed[k] = map[string]bool{}
		}
		allowed[k][s.callee] = true
	}
	total := 0
	for _, m := range subs {
		tg := map[*types.Func]bool{m: true}
		names := map[string]*types.Interface{}
		if sig, ok := m.Type().(*types.Signature); ok && sig.Recv() != nil {
			if it, ok := sig.Recv().Type().Underlying().(*types.Interface); ok {
				names[m.Name()] = it
			}
		}
		for _, im := range implementers(c.P, m) {
			tg[im] = true
		}
		for _, s := range callersOf(c, tg, names) {
			encl := ens.SSAFuncName(topFunc(s.Encl))
			if !strings.HasPrefix(encl, "ssv/protocol/") && !strings.HasPrefix(encl, "ssv/operator/") {
				// the beacon client's own implementation may delegate between its methods
				if strings.HasPrefix(encl, "ssv/beacon/goclient.") {
					continue
				}
			}
			total++
			construct := fmt.Sprintf("BeaconNode.%s|caller %s", m.Name(), encl)
			if allowed[encl][m.Name()] {
				c.OK("C05-R1", construct, c.P.Pos(s.Instr.Pos()), "site is in the table")
			} else {
				c.Fail("C05-R1", construct, c.P.Pos(s.Instr.Pos()), fmt.Sprintf("BeaconNode.%s is called from %s; submissions may only be made by the matching runner's Process{Pre,Post}Consensus after reconstruction", m.Name(), encl))
			}
		}
	}
	c.Min("C05-R1", total, 9, "Submit* call sites")

	// ---------------- R2/R3 per site
	nSites := 0
	for _, s := range submitSites {
		fnSpec := runnerMethod(s.runner, s.method)
		f := fn(c, "C05-R2", fnSpec)
		if f == nil {
			continue
		}
		sites := callsIn(f, "*."+s.callee)
		if len(sites) == 0 {
			c.Undischarged("C05-R2", fmt.Sprintf("%s.%s|%s", s.runner, s.method, s.callee), "the table expects a call here and none was found")
			continue
		}
		container := "p0.BaseRunner.State." + s.stage + "ConsensusContainer"
		base := "ssv/protocol/v2/ssv/runner.BaseRunner.base" + s.stage + "ConsensusMsgProcessing("
		reqs := []Req{
			{"reconstructed", "ok(ssv/protocol/v2/ssv/runner.State.ReconstructBeaconSig(p0.BaseRunner.State, " + container + ", *, p0.BaseRunner.Share.ValidatorPubKey))", "the signature must be reconstructed from this runner's own container against the validator's public key"},
			{"verified", "ok(ssv/protocol/v2/types.VerifyReconstructedSignature(*, p0.BaseRunner.Share.ValidatorPubKey, *))", "the reconstructed signature must be verified before it is used"},
			{"bls-verify", "T(github.com/herumi/bls-eth-go-binary/bls.Sign.VerifyByte(ssv-spec/types.ReconstructSignatures(*)#0, ssv/protocol/v2/types.DeserializeBLSPublicKey(p0.BaseRunner.Share.ValidatorPubKey)#0, *))", "verification must be the BLS check of the reconstructed signature under the validator key"},
			{"quorum", "T(" + base + "*)#0)", "nothing may be submitted before a quorum of partial signatures"},
			{"processing-ok", "ok(" + base + "*))", "nothing may be submitted when message processing failed"},
			{"running-duty", "T(ssv/protocol/v2/ssv/runner.BaseRunner.hasRunningDuty(p0.BaseRunner))", "a finished duty must not submit again"},
			{"not-finished", "F(p0.BaseRunner.State.Finished)", "a finished duty must not submit again"},
		}
		for i, cs := range sites {
			nSites++
			facts := cs.Facts(c)
			inst := fmt.Sprintf("%s.%s|%s#%d", s.runner, s.method, s.callee, i+1)
			for _, r := range reqs {
				rule := "C05-R2"
				if r.Name == "quorum" || r.Name == "processing-ok" || r.Name == "running-duty" || r.Name == "not-finished" {
					rule = "C05-R3"
				}
				if k, ok := facts.Has(r.Pat); ok {
					c.OK(rule, inst+"|"+r.Name, c.P.Pos(cs.Instr.Pos()), clip(k))
				} else {
					c.Fail(rule, inst+"|"+r.Name, c.P.Pos(cs.Instr.Pos()), fmt.Sprintf("%s is reachable without fact %q — %s", cs.Label, r.Pat, r.Why))
				}
			}
			// provenance of the signature argument
			args := cs.Instr.Common().Args
			if s.sigArg >= len(args) {
				c.Undischarged("C05-R2", inst+"|sig-arg", "argument list changed")
				continue
			}
			sn := cs.Arg(c, s.sigArg)
			hasRec := false
			for _, l := range sn.Calls() {
				if l == "ssv/protocol/v2/ssv/runner.State.ReconstructBeaconSig" {
					hasRec = true
				}
			}
			c.Decide(hasRec, "C05-R2", inst+"|sig-provenance", c.P.Pos(cs.Instr.Pos()),
				"signature argument slices back to ReconstructBeaconSig: "+clip(sn.String()),
				"the signature handed to the beacon node does not come from ReconstructBeaconSig: "+clip(sn.String()))
			if s.decidedObject {
				on := cs.Arg(c, 0)
				str := on.String()
				okObj := strings.Contains(str, "p0.BaseRunner.State.DecidedValue") && !strings.Contains(str, "StartingDuty")
				bad := ""
				var walk func(m *ens.Node)
				walk = func(m *ens.Node) {
					if m.K == "call" && (strings.Contains(m.L, "ConsensusMsgProcessing") || strings.HasSuffix(m.L, ".ReconstructBeaconSig")) {
						return // the quorum roots and the reconstructed signature legitimately depend on the message
					}
					if m.K == "param" && m.L == "2" {
						bad = "uses the incoming message"
					}
					for _, k := range m.A {
						walk(k)
					}
				}
				walk(on)
				c.Decide(okObj && bad == "", "C05-R2", inst+"|object-provenance", c.P.Pos(cs.Instr.Pos()),
					"submitted object slices back to State.DecidedValue", "the submitted object is not built from the decided value only ("+bad+"): "+clip(str))
			}
		}
	}
	c.Min("C05-R2", nSites, 12, "signature-consuming beacon-node call sites")

	// the beacon client REBUILDS the validator registration around the reconstructed signature: its
	// timestamp must be the quantity every operator signed (start time of the current epoch), or the
	// submitted object no longer verifies under the validator key
	for _, x := range []struct{ fn, want, what string }{
		{ssv + "beacon/goclient.(*goClient).createValidatorRegistration", "*.GetSlotStartTime(*, *.GetEpochFirstSlot(*, *.EstimatedCurrentEpoch(*)))", "start time of the current epoch's first slot"},
		{ssv + "protocol/v2/ssv/runner.(*ValidatorRegistrationRunner).calculateValidatorRegistration", "*.EpochStartTime(*, *.EstimatedEpochAtSlot(*, *StartingDuty.Slot))", "start time of the duty slot's epoch"},
	} {
		f := fn(c, "C05-R2", x.fn)
		if f == nil {
			continue
		}
		a := c.E.Analyze(f)
		k := 0
		for _, st := range storesWhere(f, func(st *ssa.Store) bool {
			fa, ok := st.Addr.(*ssa.FieldAddr)
			return ok && fieldName(fa) == "Timestamp"
		}) {
			k++
			got := a.D.D(st.Store.Val).String()
			c.Decide(ens.Glob(x.want, got), "C05-R2", short(x.fn)+"|registration timestamp = "+x.what, c.P.Pos(st.Store.Pos()), clip(got),
				"the registration timestamp is "+clip(got)+", not the "+x.what+": the object sent to the beacon node differs from the one the committee signed")
		}
		c.Min("C05-R2", k, 1, "Timestamp store in "+short(x.fn))
	}
	// ---------------- R3: what the quorum exit of the base functions guarantees
	bp := runnerPkg + ".(*BaseRunner)."
	ensures(c, "C05-R3", bp+"basePostConsensusMsgProcessing", "r0=true,err=nil", []Req{
		{"validated", "ok(ssv/protocol/v2/ssv/runner.BaseRunner.ValidatePostConsensusMsg(p0, p2, p3))", "post-consensus messages must be validated before they are counted"},
		{"counted-in-post-container", "ok(ssv/protocol/v2/ssv/runner.BaseRunner.basePartialSigMsgProcessing(p0, p3, p0.State.PostConsensusContainer))", "quorum must be computed on the post-consensus container"},
	})
	ensures(c, "C05-R3", bp+"basePreConsensusMsgProcessing", "r0=true,err=nil", []Req{
		{"validated", "ok(ssv/protocol/v2/ssv/runner.BaseRunner.ValidatePreConsensusMsg(p0, p1, p2))", "pre-consensus messages must be validated before they are counted"},
		{"counted-in-pre-container", "ok(ssv/protocol/v2/ssv/runner.BaseRunner.basePartialSigMsgProcessing(p0, p2, p0.State.PreConsensusContainer))", "quorum must be computed on the pre-consensus container"},
	})
	ensures(c, "C05-R3", bp+"ValidatePostConsensusMsg", "err=nil", []Req{
		{"running-duty", "T(ssv/protocol/v2/ssv/runner.BaseRunner.hasRunningDuty(p0))", ""},
		{"decided-value", "nonnil(p0.State.DecidedValue)", "post-consensus before a decision must be refused"},
		{"running-instance", "nonnil(p0.State.RunningInstance)", ""},
		{"instance-decided", "T(ssv/protocol/v2/qbft/instance.Instance.IsDecided(p0.State.RunningInstance)#0)", "the running instance must have decided"},
		{"slot-and-signer", "ok(ssv/protocol/v2/ssv/runner.BaseRunner.validatePartialSigMsgForSlot(p0, p2, *.Duty.Slot))", "message must be for the decided duty's slot"},
		{"expected-roots", "ok(ssv/protocol/v2/ssv/runner.BaseRunner.verifyExpectedRoot(p0, p1, p2, ssv/protocol/v2/ssv/runner.Runner.expectedPostConsensusRootsAndDomain(p1)#0, ssv/protocol/v2/ssv/runner.Runner.expectedPostConsensusRootsAndDomain(p1)#1))", "roots must be the ones expected from the decided value"},
	})
	ensures(c, "C05-R3", bp+"ValidatePreConsensusMsg", "err=nil", []Req{
		{"running-duty", "T(ssv/protocol/v2/ssv/runner.BaseRunner.hasRunningDuty(p0))", ""},
		{"slot-and-signer", "ok(ssv/protocol/v2/ssv/runner.BaseRunner.validatePartialSigMsgForSlot(p0, p2, p0.State.StartingDuty.Slot))", "message must be for the started duty's slot"},
		{"expected-roots", "ok(ssv/protocol/v2/ssv/runner.BaseRunner.verifyExpectedRoot(p0, p1, p2, ssv/protocol/v2/ssv/runner.Runner.expectedPreConsensusRootsAndDomain(p1)#0, ssv/protocol/v2/ssv/runner.Runner.expectedPreConsensusRootsAndDomain(p1)#1))", ""},
	})
	ensures(c, "C05-R3", bp+"validatePartialSigMsgForSlot", "err=nil", []Req{
		{"well-formed", "ok(ssv-spec/types.SignedPartialSignatureMessage.Validate(p1))", ""},
		{"slot", "eq(p1.Message.Slot, p2)", "wrong-slot messages must be refused"},
		{"signer-in-committee", "T(phi(false, true)) || T(phi(false, true, *))", "the signer must be found in the committee"},
	})
	ensures(c, "C05-R3", bp+"verifyExpectedRoot", "err=nil", []Req{
		{"count", "eq(len(p2.Message.Messages), len(p3))", "number of roots must match"},
		{"roots-equal", "forall(T(bytes.Equal(*verifyExpectedRoot$1(p3)#0[_][:], *verifyExpectedRoot$2(p2.Message)[_][:])))", "every signing root must equal the expected one"},
	})
	// the committee loop of validatePartialSigMsgForSlot: the flag only becomes true under id equality
	// edge trigger in basePartialSigMsgProcessing
	nApp := atCalls(c, "C05-R3", bp+"basePartialSigMsgProcessing", "append", []Req{
		{"has-quorum-now", "T(ssv-spec/ssv.PartialSigContainer.HasQuorum@*(p2, p1.Message.Messages[_].SigningRoot))", "a root is reported only when the container has a quorum for it after adding"},
		{"no-quorum-before", "F(ssv-spec/ssv.PartialSigContainer.HasQuorum*(p2, p1.Message.Messages[_].SigningRoot))", "a root is reported only on the first quorum (edge trigger) — otherwise every later share re-submits"},
	})
	c.Min("C05-R3", nApp, 1, "root-report sites in basePartialSigMsgProcessing")
	atCalls(c, "C05-R3", bp+"basePartialSigMsgProcessing", "ssv-spec/ssv.PartialSigContainer.AddSignature", []Req{
		{"not-duplicate", "F(ssv-spec/ssv.PartialSigContainer.HasSigner(p2, p1.Message.Messages[_].Signer, p1.Message.Messages[_].SigningRoot))", "a second signature of one signer must go through resolveDuplicateSignature"},
	})
	// a stored signature is removed only when it does not verify (or cannot be read): a correct
	// share already delivered must survive a later wrong duplicate from the same signer
	prevSig := "ssv-spec/ssv.PartialSigContainer.GetSignature(p1, p2.Signer, p2.SigningRoot)"
	prevBad := "fail(ssv/protocol/v2/ssv/runner.BaseRunner.verifyBeaconPartialSignature(p0, p2.Signer, " + prevSig + "#0, p2.SigningRoot))"
	kRm := atCalls(c, "C05-R3", bp+"resolveDuplicateSignature", "ssv-spec/ssv.PartialSigContainer.Remove", []Req{
		{"previous-invalid-or-unreadable", "fail(" + prevSig + ") || " + prevBad + " || when(isnil(" + prevSig + "#1) => " + prevBad + ")", "the stored signature may be dropped only if it is unreadable or fails verification"},
	})
	c.Min("C05-R3", kRm, 1, "Remove in resolveDuplicateSignature")
	atCalls(c, "C05-R3", bp+"resolveDuplicateSignature", "ssv-spec/ssv.PartialSigContainer.AddSignature", []Req{
		{"new-sig-verified", "ok(ssv/protocol/v2/ssv/runner.BaseRunner.verifyBeaconPartialSignature(p0, p2.Signer, p2.PartialSignature, p2.SigningRoot))", "a replacing signature must be individually verified"},
	})
	// what ReconstructSignature guarantees on success
	ensures(c, "C05-R2", ssv+"protocol/v2/types.ReconstructSignature", "err=nil", []Req{
		{"verified", "ok(ssv/protocol/v2/types.VerifyReconstructedSignature(ssv-spec/types.ReconstructSignatures(*)#0, p2, p1))", "the reconstructed signature must be verified against the given key and root"},
	})
	ensures(c, "C05-R2", ssv+"protocol/v2/types.VerifyReconstructedSignature", "err=nil", []Req{
		{"bls", "T(github.com/herumi/bls-eth-go-binary/bls.Sign.VerifyByte(p0, ssv/protocol/v2/types.DeserializeBLSPublicKey(p1)#0, p2[:]))", "must verify p0 under the deserialised key over the root"},
	})

	// ---------------- R4
	nFin := 0
	seen := map[string]bool{}
	for _, s := range submitSites {
		k := s.runner + "." + s.method
		if seen[k] {
			continue
		}
		seen[k] = true
		base := "ssv/protocol/v2/ssv/runner.BaseRunner.base" + s.stage + "ConsensusMsgProcessing("
		if s.setsFinished {
			nFin += ensuresIf(c, "C05-R4", runnerMethod(s.runner, s.method), "err=nil", "quorum reached", "T("+base+"*)#0)", []Req{
				{"finished", "stored(p0.BaseRunner.State.Finished, true)", "after submitting, the duty must be marked finished so that nothing is submitted twice"},
			})
		}
		ensuresIf(c, "C05-R4", runnerMethod(s.runner, s.method), "err=nonnil", "reconstruction failed", "fail(ssv/protocol/v2/ssv/runner.State.ReconstructBeaconSig(*", []Req{
			{"fallback", "called(ssv/protocol/v2/ssv/runner.BaseRunner.FallBackAndVerifyEachSignature(p0.BaseRunner, p0.BaseRunner.State." + s.stage + "ConsensusContainer, *)) || forall(called(ssv/protocol/v2/ssv/runner.BaseRunner.FallBackAndVerifyEachSignature(p0.BaseRunner, p0.BaseRunner.State." + s.stage + "ConsensusContainer, *)))", "bad shares must be evicted so that a later correct share can re-trigger the quorum edge"},
		})
	}
	c.Min("C05-R4", nFin, 7, "success exits that must set Finished")
	// the per-share verification behind the fallback and the duplicate resolution
	ensures(c, "C05-R4", bp+"verifyBeaconPartialSignature", "err=nil", []Req{
		{"signer-is-committee-member", "eq(p0.Share.Committee[_].OperatorID, p1)", "an unknown signer must be refused"},
		{"pubkey-of-that-member", "ok(ssv/protocol/v2/types.DeserializeBLSPublicKey(p0.Share.Committee[_].PubKey))", "the share must be checked against the signer's own public key"},
		{"sig-deserialised", "ok(github.com/herumi/bls-eth-go-binary/bls.Sign.Deserialize(*, p2))", "a malformed partial signature must be refused (otherwise the fallback keeps it and the quorum edge never fires again)"},
		{"bls-verify", "T(github.com/herumi/bls-eth-go-binary/bls.Sign.VerifyByte(*, *, p3[:]))", "the share must verify over the root"},
	})
	atCalls(c, "C05-R4", bp+"FallBackAndVerifyEachSignature", "ssv-spec/ssv.PartialSigContainer.Remove", []Req{
		{"only-invalid-evicted", "fail(ssv/protocol/v2/ssv/runner.BaseRunner.verifyBeaconPartialSignature(p0, *, *, p2))", "only shares that fail verification are evicted"},
	})
	ensures(c, "C05-R4", bp+"hasRunningDuty", "ret=true", []Req{
		{"not-finished", "F(p0.State.Finished)", "hasRunningDuty must be false once Finished is set"},
	})
}
