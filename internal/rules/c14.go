package rules

import (
	"fmt"
	"go/token"
	"go/types"
	"strings"

	"golang.org/x/tools/go/ssa"

	"verif/ssvcheck/internal/core"
	"verif/ssvcheck/internal/ens"
)

const qPkg = ssv + "protocol/v2/ssv/queue"
const qN = "ssv/protocol/v2/ssv/queue."

func init() {
	register(&Check{
		Prop: "C14",
		Pkgs: []string{"./..."},
		Explain: "Conservation over all operation sequences as a behaviour, fairness and concurrent-producer schedules are NOT decided. Decided (engine E6, a small typestate analysis of the linked list on SSA): " +
			"(R1) unlink discipline in priorityQueue.pop: every store to head / item.next in pop is an unlink (stores X.next of one node X); from every unlink of X each reachable return returns X.message, and no return of nil is reachable from an unlink (nothing is dropped); the unlinked node X is only ever assigned from list nodes that passed filter(node.message) on that path (only admissible messages leave the queue); a pop with no admissible message leaves the list untouched; " +
			"link discipline in Pop / readInbox: every message received from the inbox channel is stored into a fresh item that becomes the new head, and that item's next is the previous head unless the head is known to be nil (the rest of the list is never cut off); " +
			"(R2) priority table: scoreMessageType is ExecuteDuty(3) > Timeout(2) > other(0), scoreHeight is current(2) > next(1) > past(0), and Prior compares message-type score first, relative height second, before any other key; " +
			"(R3) the only writers of head/next are Pop, readInbox and pop of priorityQueue; Push/TryPush only send on the channel; the consumer's idle filter admits only ExecuteDuty events and the no-proposal filter only holds back prepare/commit of the current height and round.",
		Rules: []string{
			"C14-R1 unlink ⇒ returned (typestate on SSA of pop); candidate assigned only under filter; received ⇒ linked with next = old head",
			"C14-R2 constant tables of scoreMessageType / scoreHeight; first two decision points of Prior",
			"C14-R3 who-may-write(head, next); producers touch the channel only; consumer filter shapes",
		},
		Trusted: []string{"go/ssa", "Go channel semantics (a buffered channel neither loses nor duplicates sends)"},
		Run:     runC14,
	})
}

func runC14(c *core.Ctx) {
	headF, err1 := c.P.LookupField(qPkg + ".priorityQueue.head")
	nextF, err2 := c.P.LookupField(qPkg + ".item.next")
	msgF, err3 := c.P.LookupField(qPkg + ".item.message")
	if err1 != nil || err2 != nil || err3 != nil {
		c.Undischarged("C14-R1", "anchor:priorityQueue fields", fmt.Sprint(err1, err2, err3))
		return
	}
	isListStore := func(in ssa.Instruction) (*ssa.Store, bool) {
		st, ok := in.(*ssa.Store)
		if !ok {
			return nil, false
		}
		fa, ok := st.Addr.(*ssa.FieldAddr)
		if !ok {
			return nil, false
		}
		fv := fieldVar(fa)
		return st, fv == headF || fv == nextF
	}
	// ---------------- R1: pop
	pop := fn(c, "C14-R1", qPkg+".(*priorityQueue).pop")
	if pop != nil {
		a := c.E.Analyze(pop)
		// reachability between blocks
		reach := func(from *ssa.BasicBlock) map[*ssa.BasicBlock]bool {
			seen := map[*ssa.BasicBlock]bool{from: true}
			work := []*ssa.BasicBlock{from}
			for len(work) > 0 {
				b := work[len(work)-1]
				work = work[:len(work)-1]
				for _, s := range b.Succs {
					if !seen[s] {
						seen[s] = true
						work = append(work, s)
					}
				}
			}
			return seen
		}
		type unlink struct {
			st   *ssa.Store
			node ssa.Value
		}
		var unlinks []unlink
		nStores := 0
		for _, b := range pop.Blocks {
			for _, in := range b.Instrs {
				st, ok := isListStore(in)
				if !ok {
					continue
				}
				nStores++
				// value must be load(FieldAddr(X, next))
				var node ssa.Value
				if ld, ok := st.Val.(*ssa.UnOp); ok && ld.Op == token.MUL {
					if fa, ok := ld.X.(*ssa.FieldAddr); ok && fieldVar(fa) == nextF {
						node = fa.X
					}
				}
				c.Decide(node != nil, "C14-R1", fmt.Sprintf("pop|list store #%d is an unlink (stores X.next)", nStores), c.P.Pos(st.Pos()), "unlink of "+nodeName(a, node),
					"pop writes "+a.D.D(st.Val).String()+" into the list: pop may only unlink a node by storing that node's next pointer")
				if node != nil {
					unlinks = append(unlinks, unlink{st, node})
				}
			}
		}
		c.Min("C14-R1", len(unlinks), 2, "unlink stores in pop (head case and interior case)")
		// an unlink removes exactly ONE node: the node whose next pointer is overwritten must be the
		// immediate predecessor of the unlinked node (head store: the unlinked node must be the head
		// whenever no predecessor was recorded). Proven by coinduction over the scan loop's φ-nodes.
		isNil := func(v ssa.Value) bool { k, ok := v.(*ssa.Const); return ok && k.Value == nil }
		nextOf := func(v ssa.Value) ssa.Value { // v == *(&X.next) → X
			if ld, ok := v.(*ssa.UnOp); ok && ld.Op == token.MUL {
				if fa, ok := ld.X.(*ssa.FieldAddr); ok && fieldVar(fa) == nextF {
					return fa.X
				}
			}
			return nil
		}
		isHeadLoad := func(v ssa.Value) bool {
			if ld, ok := v.(*ssa.UnOp); ok && ld.Op == token.MUL {
				if fa, ok := ld.X.(*ssa.FieldAddr); ok && fieldVar(fa) == headF {
					return true
				}
			}
			return false
		}
		assumed := map[[2]ssa.Value]bool{}
		var predOf func(a0, b0 ssa.Value, depth int) bool
		predOf = func(a0, b0 ssa.Value, depth int) bool {
			if depth > 12 {
				return false
			}
			if assumed[[2]ssa.Value{a0, b0}] {
				return true
			}
			if isNil(b0) {
				return true // nothing selected: the unlink is not reached with this pair (guarded by the nil return)
			}
			if isNil(a0) {
				return isHeadLoad(b0) // "no predecessor" is only right for the head
			}
			if nextOf(b0) == a0 {
				return true // b = a.next
			}
			pa, okA := a0.(*ssa.Phi)
			pb, okB := b0.(*ssa.Phi)
			if okA && okB && pa.Block() == pb.Block() {
				assumed[[2]ssa.Value{a0, b0}] = true
				for i := range pa.Edges {
					if !predOf(pa.Edges[i], pb.Edges[i], depth+1) {
						delete(assumed, [2]ssa.Value{a0, b0})
						return false
					}
				}
				return true
			}
			if okA && !okB {
				// b fixed, a merges alternatives: every alternative must be b's predecessor
				for _, e := range pa.Edges {
					if !predOf(e, b0, depth+1) {
						return false
					}
				}
				return true
			}
			return false
		}
		for i, u := range unlinks {
			fa, ok := u.st.Addr.(*ssa.FieldAddr)
			if !ok {
				continue
			}
			switch fieldVar(fa) {
			case nextF:
				okp := predOf(fa.X, u.node, 0)
				c.Decide(okp, "C14-R1", fmt.Sprintf("pop|unlink #%d rewires the immediate predecessor", i+1), c.P.Pos(u.st.Pos()), nodeName(a, fa.X)+" is the list predecessor of "+nodeName(a, u.node)+" on every path",
					"the node whose next pointer is overwritten ("+nodeName(a, fa.X)+") is not provably the immediate predecessor of the unlinked node ("+nodeName(a, u.node)+"): every node between them is cut out of the queue together with it")
			case headF:
				// reached only when no predecessor was recorded: then the unlinked node must be the head
				var priorV ssa.Value
				for _, v := range unlinks {
					if f2, ok := v.st.Addr.(*ssa.FieldAddr); ok && fieldVar(f2) == nextF {
						priorV = f2.X
					}
				}
				okh := priorV != nil && predOf(priorV, u.node, 0)
				c.Decide(okh, "C14-R1", fmt.Sprintf("pop|unlink #%d at the head removes the head itself", i+1), c.P.Pos(u.st.Pos()), "predecessor nil ⇒ unlinked node is the head",
					"when no predecessor was recorded the unlinked node is not provably the head: the nodes in front of it are cut out of the queue")
			}
		}
		// returns
		type retInfo struct {
			ret   *ssa.Return
			node  ssa.Value // nil when returning nil
			isNil bool
		}
		var rets []retInfo
		for _, b := range pop.Blocks {
			if r, ok := b.Instrs[len(b.Instrs)-1].(*ssa.Return); ok {
				ri := retInfo{ret: r}
				v := r.Results[0]
				if cst, ok := v.(*ssa.Const); ok && cst.Value == nil {
					ri.isNil = true
				} else if ld, ok := v.(*ssa.UnOp); ok && ld.Op == token.MUL {
					if fa, ok := ld.X.(*ssa.FieldAddr); ok && fieldVar(fa) == msgF {
						ri.node = fa.X
					}
				}
				rets = append(rets, ri)
			}
		}
		for i, u := range unlinks {
			r := reach(u.st.Block())
			for _, ri := range rets {
				if !r[ri.ret.Block()] {
					continue
				}
				ok := !ri.isNil && ri.node == u.node
				what := "nil"
				if !ri.isNil {
					what = a.D.D(ri.ret.Results[0]).String()
				}
				c.Decide(ok, "C14-R1", fmt.Sprintf("pop|unlink #%d ⇒ the unlinked node's message is returned", i+1), c.P.Pos(ri.ret.Pos()), "returns the unlinked node's message",
					fmt.Sprintf("after unlinking %s (%s) pop can return %s: the unlinked message is lost or a different one is returned", nodeName(a, u.node), c.P.Pos(u.st.Pos()), what))
			}
		}
		// the nil return is not reachable from any unlink (covered above) and exists (no admissible message ⇒ untouched list)
		hasNil := false
		for _, ri := range rets {
			if ri.isNil {
				hasNil = true
			}
		}
		c.Decide(hasNil, "C14-R1", "pop|returns nil without touching the list when nothing is admissible", c.P.Pos(pop.Pos()), "nil return exists and is not reachable from an unlink", "pop has no 'nothing admissible' exit")
		// admission: the unlinked node φ is assigned only from nodes that passed the filter
		checked := map[ssa.Value]bool{}
		for _, u := range unlinks {
			if checked[u.node] {
				continue
			}
			checked[u.node] = true
			phi, ok := u.node.(*ssa.Phi)
			if !ok {
				c.Fail("C14-R1", "pop|candidate admission", c.P.Pos(u.st.Pos()), "the unlinked node is "+a.D.D(u.node).String()+", not a candidate selected in the scan loop")
				continue
			}
			nAssigned := 0
			seenPhi := map[*ssa.Phi]bool{}
			var walk func(p *ssa.Phi)
			walk = func(p *ssa.Phi) {
				if seenPhi[p] {
					return
				}
				seenPhi[p] = true
				for i, e := range p.Edges {
					if cst, ok := e.(*ssa.Const); ok && cst.Value == nil {
						continue // "no candidate yet"
					}
					if pe, ok := e.(*ssa.Phi); ok {
						if pe == phi || seenPhi[pe] {
							continue
						}
						// another φ carrying the candidate (loop header / merge)
						if carries(pe, phi, map[*ssa.Phi]bool{}) {
							walk(pe)
							continue
						}
					}
					nAssigned++
					pred := p.Block().Preds[i]
					facts := a.FactsAt(pred.Instrs[len(pred.Instrs)-1])
					for _, f := range a.EdgeFacts(pred, p.Block()) {
						facts.Add(f)
					}
					want := "T(dyn[p2](" + a.D.D(e).String() + ".message))"
					_, admitted := facts.Has(want)
					c.Decide(admitted, "C14-R1", fmt.Sprintf("pop|candidate assignment #%d is under filter(candidate.message)", nAssigned), c.P.Pos(pred.Instrs[len(pred.Instrs)-1].Pos()), want,
						"a list node becomes the pop candidate without having passed the filter: a message the filter does not admit can be unlinked")
				}
			}
			walk(phi)
			c.Min("C14-R1", nAssigned, 1, "candidate assignments in pop")
		}
	}
	// ---------------- R1: link discipline
	nLinks := 0
	for _, m := range []string{"Pop", "readInbox"} {
		f := fn(c, "C14-R1", qPkg+".(*priorityQueue)."+m)
		if f == nil {
			continue
		}
		a := c.E.Analyze(f)
		nRecv := 0
		for _, b := range f.Blocks {
			for _, in := range b.Instrs {
				// receives from q.inbox: select states or plain receives
				if sel, ok := in.(*ssa.Select); ok {
					for _, st := range sel.States {
						if st.Dir == types.RecvOnly && strings.HasSuffix(a.D.D(st.Chan).String(), ".inbox") {
							nRecv++
						}
					}
				}
			}
		}
		// every message taken off the inbox is linked into the list on EVERY path before the loop
		// selects again or the function returns (a receive that is dropped on some path — e.g. when
		// the waiting pop's filter does not admit it — is a lost message)
		isLink := func(in ssa.Instruction) bool {
			if st, ok := in.(*ssa.Store); ok {
				if fa, ok := st.Addr.(*ssa.FieldAddr); ok && fieldVar(fa) == headF {
					return true
				}
			}
			if cv, ok := in.(*ssa.Call); ok {
				if h := cv.Call.StaticCallee(); h != nil && len(h.Blocks) > 0 && h.Pkg == f.Pkg {
					// a private helper that stores the head on all of its paths
					hasStore := false
					for _, hb := range h.Blocks {
						for _, hin := range hb.Instrs {
							if st, ok := hin.(*ssa.Store); ok {
								if fa, ok := st.Addr.(*ssa.FieldAddr); ok && fieldVar(fa) == headF {
									hasStore = true
								}
							}
						}
					}
					if hasStore && len(h.Blocks) > 0 {
						first := h.Blocks[0].Instrs[0]
						return passThrough(first, func(x ssa.Instruction) bool {
							st, ok := x.(*ssa.Store)
							if !ok {
								return false
							}
							fa, ok := st.Addr.(*ssa.FieldAddr)
							return ok && fieldVar(fa) == headF
						}, nil) != ptNo && !returnsBefore(h, headF)
					}
				}
			}
			return false
		}
		for _, b := range f.Blocks {
			for _, in := range b.Instrs {
				sel, ok := in.(*ssa.Select)
				if !ok {
					continue
				}
				for k, st := range sel.States {
					if st.Dir != types.RecvOnly || !strings.HasSuffix(a.D.D(st.Chan).String(), ".inbox") {
						continue
					}
					// the block entered when case k was chosen
					var body *ssa.BasicBlock
					for _, bb := range f.Blocks {
						iff, ok := bb.Instrs[len(bb.Instrs)-1].(*ssa.If)
						if !ok {
							continue
						}
						cmp, ok := iff.Cond.(*ssa.BinOp)
						if !ok || cmp.Op != token.EQL {
							continue
						}
						ex, ok := cmp.X.(*ssa.Extract)
						if !ok || ex.Tuple != ssa.Value(sel) || ex.Index != 0 {
							continue
						}
						if cst, ok := cmp.Y.(*ssa.Const); ok && cst.Int64() == int64(k) {
							body = bb.Succs[0]
						}
					}
					if body == nil {
						c.Undischarged("C14-R1", m+"|inbox receive case", "could not locate the block of the inbox receive case")
						continue
					}
					linked := passThrough(body.Instrs[0], isLink, b) == ptYes || isLink(body.Instrs[0])
					c.Decide(linked, "C14-R1", m+"|every received message is linked before the next select / return", c.P.Pos(sel.Pos()), "link on every path",
						"a message received from the inbox can reach the next select or a return without having been linked into the list: it is taken off the channel and dropped")
				}
			}
		}
		// list stores in the function and in the private helpers it calls (e.g. an extracted "prepend")
		for _, ss := range storesWhere(f, func(st *ssa.Store) bool { _, ok := isListStore(st); return ok }) {
			st := ss.Store
			fa := st.Addr.(*ssa.FieldAddr)
			if _, fresh := fa.X.(*ssa.Alloc); fresh {
				continue // initialising the next pointer of the item being created
			}
			if fieldVar(fa) != headF {
				c.Fail("C14-R1", m+"|writes item.next", c.P.Pos(st.Pos()), m+" rewires an interior next pointer; only pop may unlink")
				continue
			}
			nLinks++
			val := ss.Val(c).String()
			facts := ss.Facts(c)
			fresh := strings.HasPrefix(val, "new:"+qN+"item{")
			carriesMsg := strings.Contains(val, "message: select(") || strings.Contains(val, "message: <-")
			keepsTail := strings.Contains(val, "next: p0.head")
			_, headNil := facts.Has("isnil(p0.head)")
			c.Decide(fresh && carriesMsg, "C14-R1", fmt.Sprintf("%s|head store #%d links the received message", m, nLinks), c.P.Pos(st.Pos()), clip(val), m+" stores "+clip(val)+" as head: the head may only become a fresh item carrying the message just received")
			c.Decide(keepsTail || headNil, "C14-R1", fmt.Sprintf("%s|head store #%d keeps the rest of the list", m, nLinks), c.P.Pos(st.Pos()), "next = old head (or head was nil)",
				"the new head's next pointer is not the previous head and the head is not known to be nil: every message already queued is cut off and lost")
		}
		c.Min("C14-R1", nRecv, 1, "inbox receives in "+m)
	}
	c.Min("C14-R1", nLinks, 4, "link stores in Pop/readInbox")

	// ---------------- R2
	checkScores(c)

	// ---------------- R3
	for _, fld := range []string{"priorityQueue.head", "item.next"} {
		whoMayWrite(c, "C14-R3", qPkg+"."+fld, map[string]string{
			qN + "priorityQueue.Pop":       "links received messages while waiting",
			qN + "priorityQueue.readInbox": "links received messages",
			qN + "priorityQueue.pop":       "unlinks the returned message",
		})
	}
	for _, m := range []string{"Push", "TryPush"} {
		f := fn(c, "C14-R3", qPkg+".(*priorityQueue)."+m)
		if f == nil {
			continue
		}
		sends, other := 0, 0
		for _, b := range f.Blocks {
			for _, in := range b.Instrs {
				switch x := in.(type) {
				case *ssa.Send:
					sends++
				case *ssa.Select:
					for _, st := range x.States {
						if st.Dir == types.SendOnly {
							sends++
						}
					}
				case *ssa.Store, *ssa.MapUpdate:
					other++
				}
			}
		}
		c.Decide(sends == 1 && other == 0, "C14-R3", m+"|producers only send on the inbox channel", c.P.Pos(f.Pos()), "one send, no writes", m+" does more than one channel send (or writes shared state): concurrent producers could corrupt the list")
	}
	checkConsumerFilters(c)
}

func nodeName(a *ens.FuncAnalysis, v ssa.Value) string {
	if v == nil {
		return "?"
	}
	return clip(a.D.D(v).String())
}

func carries(p, target *ssa.Phi, seen map[*ssa.Phi]bool) bool {
	if p == target {
		return true
	}
	if seen[p] {
		return false
	}
	seen[p] = true
	for _, e := range p.Edges {
		if q, ok := e.(*ssa.Phi); ok && carries(q, target, seen) {
			return true
		}
	}
	return false
}

// checkScores: the priority tables and the order of comparison in Prior.
func checkScores(c *core.Ctx) {
	// scoreMessageType: ExecuteDuty → 3, Timeout → 2, otherwise 0
	if f := fn(c, "C14-R2", qPkg+".scoreMessageType"); f != nil {
		a := c.E.Analyze(f)
		exits, _ := a.Exits("any")
		got := map[string]string{}
		for _, ex := range exits {
			v := a.D.D(ex.Ret.Results[0]).String()
			switch {
			case hasFact(ex.Facts, "eq(1:EventType, *.Type)") || hasFact(ex.Facts, "eq(*.Type, 1:EventType)"):
				got["ExecuteDuty"] = v
			case hasFact(ex.Facts, "eq(0:EventType, *.Type)") || hasFact(ex.Facts, "eq(*.Type, 0:EventType)"):
				got["Timeout"] = v
			default:
				if got["other"] == "" || got["other"] == v {
					got["other"] = v
				} else {
					got["other"] = got["other"] + "|" + v
				}
			}
		}
		ok := got["ExecuteDuty"] > got["Timeout"] && got["Timeout"] > got["other"] && got["other"] != "" && !strings.Contains(got["other"], "|")
		c.Decide(ok, "C14-R2", "scoreMessageType|ExecuteDuty > Timeout > other", c.P.Pos(f.Pos()), fmt.Sprint(got), "message-type scores are "+fmt.Sprint(got)+": duty start must outrank timeout, which must outrank everything else")
	}
	if f := fn(c, "C14-R2", qPkg+".scoreHeight"); f != nil {
		a := c.E.Analyze(f)
		exits, _ := a.Exits("any")
		got := map[string]string{}
		for _, ex := range exits {
			v := a.D.D(ex.Ret.Results[0]).String()
			for _, k := range []string{"0", "1", "-1"} {
				if hasFact(ex.Facts, "eq("+k+", p0)") {
					got[k] = v
				}
			}
		}
		ok := got["0"] > got["1"] && got["1"] > got["-1"] && got["-1"] != ""
		c.Decide(ok, "C14-R2", "scoreHeight|current > next > past", c.P.Pos(f.Pos()), fmt.Sprint(got), "height scores are "+fmt.Sprint(got)+": current-height traffic must come before other heights")
	}
	// Prior: first decision on message type score, second on relative height
	if f := fn(c, "C14-R2", qPkg+".(*standardPrioritizer).Prior"); f != nil {
		a := c.E.Analyze(f)
		var conds []string
		b := f.Blocks[0]
		for i := 0; i < 3 && b != nil; i++ {
			iff, ok := b.Instrs[len(b.Instrs)-1].(*ssa.If)
			if !ok {
				break
			}
			conds = append(conds, a.D.D(iff.Cond).String())
			// continue on the "equal" side (the else branch of !=)
			b = b.Succs[1]
		}
		ok := len(conds) >= 2 &&
			conds[0] == "("+qN+"scoreMessageType(p1) != "+qN+"scoreMessageType(p2))" &&
			conds[1] == "("+qN+"compareHeightOrSlot(p0.state, p1) != "+qN+"compareHeightOrSlot(p0.state, p2))"
		c.Decide(ok, "C14-R2", "Prior|message type first, relative height second", c.P.Pos(f.Pos()), strings.Join(conds, " ; "), "Prior's first decision points are "+strings.Join(conds, " ; ")+": the documented order is message-type score, then relative height")
		ensuresIf(c, "C14-R2", qPkg+".(*standardPrioritizer).Prior", "ret=true", "type scores differ", "ne("+qN+"scoreMessageType(p1), "+qN+"scoreMessageType(p2))", []Req{
			{"higher-type-score-wins", "lt(" + qN + "scoreMessageType(p2), " + qN + "scoreMessageType(p1))", "a is prior only if its type score is higher"},
		})
	}
}

func hasFact(fs ens.FactSet, pat string) bool { _, ok := fs.Has(pat); return ok }

// checkConsumerFilters: the two filters built by Validator.ConsumeQueue.
func checkConsumerFilters(c *core.Ctx) {
	cq, err := c.P.Func(ssv + "protocol/v2/ssv/validator.(*Validator).ConsumeQueue")
	if err != nil {
		c.Undischarged("C14-R3", "anchor:Validator.ConsumeQueue", err.Error())
		return
	}
	// the filter handed to Pop is one of: FilterAny, the idle filter, the no-proposal filter
	for _, s := range callsIn(cq, qN+"Queue.Pop") {
		v := s.Arg(c, 2).String()
		ok := strings.Contains(v, "func:"+qN+"FilterAny") && strings.Contains(v, "closure:ssv/protocol/v2/ssv/validator.Validator.ConsumeQueue$")
		c.Decide(ok, "C14-R3", "ConsumeQueue|filter passed to Pop", c.P.Pos(s.Instr.Pos()), clip(v), "unexpected filter passed to Pop: "+clip(v))
	}
	// the prioritizer Pop works with is built from the state computed for THIS iteration: the value
	// handed to NewMessagePrioritizer is the very local whose Height / Round / Quorum /
	// HasRunningInstance were just set (not the never-updated template it was copied from)
	{
		stateBase := map[ssa.Value]map[string]bool{}
		var prioArgs []ssa.Value
		for _, b := range cq.Blocks {
			for _, in := range b.Instrs {
				switch x := in.(type) {
				case *ssa.Store:
					if fa, ok := x.Addr.(*ssa.FieldAddr); ok {
						if fv := fieldVar(fa); fv != nil {
							switch fv.Name() {
							case "Height", "Round", "Quorum", "HasRunningInstance":
								if stateBase[fa.X] == nil {
									stateBase[fa.X] = map[string]bool{}
								}
								stateBase[fa.X][fv.Name()] = true
							}
						}
					}
				case *ssa.Call:
					if callLabel(x.Common()) == qN+"NewMessagePrioritizer" && len(x.Call.Args) == 1 {
						prioArgs = append(prioArgs, x.Call.Args[0])
					}
				}
			}
		}
		c.Decide(len(prioArgs) == 1, "C14-R3", "ConsumeQueue|one prioritizer per pop", c.P.Pos(cq.Pos()), "", fmt.Sprintf("%d NewMessagePrioritizer calls", len(prioArgs)))
		for _, v := range prioArgs {
			set := stateBase[v]
			ok := set["Height"] && set["Round"] && set["Quorum"]
			c.Decide(ok, "C14-R3", "ConsumeQueue|prioritizer built from the freshly computed state", c.P.Pos(v.Pos()), "Height, Round and Quorum of the prioritizer's state are set in this iteration",
				"the state handed to NewMessagePrioritizer is not the local whose Height/Round/Quorum are set for this iteration: messages are prioritised against a stale height and round (current-height traffic is no longer preferred)")
		}
	}
	nIdle := 0
	for _, cl := range cq.AnonFuncs {
		if cl.Signature.Params().Len() != 1 || cl.Signature.Results().Len() != 1 {
			continue
		}
		a := c.E.Analyze(cl)
		exits, _ := a.Exits("ret=true")
		// idle filter: true only for EventMsg of type ExecuteDuty
		isIdle := false
		for _, b := range cl.Blocks {
			for _, in := range b.Instrs {
				if ta, ok := in.(*ssa.TypeAssert); ok && strings.HasSuffix(types.TypeString(ta.AssertedType, nil), "types.EventMsg") {
					isIdle = true
				}
			}
		}
		if !isIdle {
			continue
		}
		nIdle++
		ok := len(exits) > 0
		for _, ex := range exits {
			if !hasFact(ex.Facts, "eq(1:EventType, *.Type)") || !hasFact(ex.Facts, "T(p0.Body.(*ssv/protocol/v2/types.EventMsg)#1)") {
				ok = false
			}
		}
		c.Decide(ok, "C14-R3", "ConsumeQueue|idle filter admits only ExecuteDuty events", c.P.Pos(cl.Pos()), "true ⇒ EventMsg ∧ Type==ExecuteDuty", "the idle filter admits something other than ExecuteDuty events")
	}
	c.Min("C14-R3", nIdle, 1, "idle filter closure")
}

// returnsBefore: some path of h reaches a return without a store to the head field.
func returnsBefore(h *ssa.Function, headF *types.Var) bool {
	if len(h.Blocks) == 0 {
		return true
	}
	isStore := func(x ssa.Instruction) bool {
		st, ok := x.(*ssa.Store)
		if !ok {
			return false
		}
		fa, ok := st.Addr.(*ssa.FieldAddr)
		return ok && fieldVar(fa) == headF
	}
	if isStore(h.Blocks[0].Instrs[0]) {
		return false
	}
	return passThrough(h.Blocks[0].Instrs[0], isStore, nil) != ptYes
}
