package rules

import (
	"fmt"
	"go/token"
	"os"
	"sort"
	"strings"

	"golang.org/x/tools/go/ssa"

	"verif/ssvcheck/internal/core"
	"verif/ssvcheck/internal/ens"
)

const rtPkg = ssv + "protocol/v2/qbft/roundtimer"
const rtN = "ssv/protocol/v2/qbft/roundtimer."
const timerArm = "ssv/protocol/v2/qbft/roundtimer.Timer.TimeoutForRound(ssv/protocol/v2/qbft.IConfig.GetTimer(p0.config), "

func init() {
	register(&Check{
		Prop: "C07",
		Pkgs: []string{"./..."},
		Setup: func(e *ens.Engine) {
			qbftSetup(e)
			e.Derived = append(e.Derived, ens.Derived{
				Func: iN + "getRoundChangeData", Name: "unprepared",
				Alts: [][]string{{"eq(0:Round, p0.LastPreparedRound)"}, {"isnil(p0.LastPreparedValue)"}},
			})
		},
		Explain: "'Decide within f+3 rounds from every reachable state' and synchrony-dependent termination are behaviours of executions and are NOT decided. Decided: the structural liveness mechanisms are intact on every path. " +
			"(R1) UponRoundTimeout: once the instance can process messages, EVERY exit (including CreateRoundChange / Broadcast errors) runs the deferred block that bumps State.Round to old+1, clears ProposalAcceptedForCurrentRound and re-arms the timer for (State.Height, State.Round); on the error-free path a round change for old+1 is created before the bump and broadcast; " +
			"(R2) Controller.OnTimeout reaches UponRoundTimeout whenever the instance exists, the timeout's round is not below the instance round (refusal only on strict <) and the instance is not decided; " +
			"(R3) uponChangeRoundPartialQuorum bumps, clears the accepted proposal, re-arms the timer, creates and broadcasts a round change; uponRoundChange reaches it under HasPartialQuorum of round changes with round > State.Round and minRound > State.Round; the leader broadcasts a proposal when hasReceivedProposalJustificationForLeadingRound finds one, and that search examines every round change of the round; uponProposal re-arms the timer and bumps on a future justified proposal; " +
			"the rest of the liveness mechanism is the reference's (C06), leader rotation wiring is C01-R6.",
		Rules: []string{
			"C07-R1 facts-on-every-exit(UponRoundTimeout after CanProcessMessages) ∋ deferred bump/clear/re-arm; Ens(closure) ⊇ {bump, clear, re-arm}",
			"C07-R2 facts-before(UponRoundTimeout call in OnTimeout) = {instance≠nil, ¬(timeout.Round < instance.Round), ¬decided} and nothing stronger on the round",
			"C07-R3 facts-before(effects of uponChangeRoundPartialQuorum / leader proposal / future-proposal bump)",
			"C07-R4 creator/validator agreement for prepared round changes: call arguments of the prepare filter, returned tuple of getRoundChangeData, data shipped by CreateRoundChange",
		},
		Trusted: []string{"QBFT liveness argument under partial synchrony (mechanisms ⇒ termination)", "go/types + go/ssa"},
		Run:     runC07,
	})
}

func runC07(c *core.Ctx) {
	inst := instPkg + ".(*Instance)."
	// ---------------- R1
	urt := inst + "UponRoundTimeout"
	if f := fn(c, "C07-R1", urt); f != nil {
		a := c.E.Analyze(f)
		exits, _ := a.Exits("any")
		bad := ""
		nAfter := 0
		for _, ex := range exits {
			if _, can := ex.Facts.Has("T(" + iN + "Instance.CanProcessMessages(p0))"); !can {
				continue
			}
			nAfter++
			if _, ok := ex.Facts.Has("deferred(" + iN + "Instance.UponRoundTimeout$1(*))"); !ok {
				bad = c.P.Pos(ex.Ret.Pos())
			}
		}
		c.Decide(bad == "" && nAfter >= 3, "C07-R1", "UponRoundTimeout|round bump deferred on every exit", c.P.Pos(f.Pos()), "all exits after the can-process guard run the deferred bump",
			"exit "+bad+" leaves UponRoundTimeout without the deferred round bump: a failed round-change creation or broadcast would leave the operator in the old round with no timer")
		// the value the round is bumped to
		if len(f.AnonFuncs) == 1 {
			ca := c.E.Analyze(f.AnonFuncs[0])
			cf, _, _ := ca.Ens("any")
			for _, r := range []Req{
				{"bump-to-old+1", "called(" + iN + "Instance.bumpToRound(p0, (p0.State.Round + 1:Round)))", "a timeout must move the operator to the next round"},
				{"clear-accepted-proposal", "stored(p0.State.ProposalAcceptedForCurrentRound, nil)", "the accepted proposal of the old round must be cleared, or the next round's proposal is refused forever"},
				{"re-arm-timer", "called(" + timerArm + "p0.State.Height, p0.State.Round))", "the timer must be armed for the new round"},
			} {
				k, ok := cf.Has(r.Pat)
				c.Decide(ok, "C07-R1", "UponRoundTimeout$1|"+r.Name, c.P.Pos(f.AnonFuncs[0].Pos()), clip(k), "the deferred block of UponRoundTimeout lacks "+r.Pat+" — "+r.Why)
			}
			// order inside the closure: bump before re-arm (so the timer is for the new round)
			k := atCalls(c, "C07-R1", urt+"$1", "ssv/protocol/v2/qbft/roundtimer.Timer.TimeoutForRound", []Req{
				{"after-bump", "called(" + iN + "Instance.bumpToRound(p0, (p0.State.Round + 1:Round)))", "the timer must be armed after the round was bumped"},
			})
			c.Min("C07-R1", k, 1, "timer re-arm in the deferred block")
		} else {
			c.Undischarged("C07-R1", "UponRoundTimeout|deferred closure", "expected exactly one closure (the deferred bump)")
		}
	}
	ensures(c, "C07-R1", urt, "err=nil", []Req{
		{"can-process", "T(" + iN + "Instance.CanProcessMessages(p0))", ""},
		{"round-change-created-for-next-round", "ok(" + iN + "CreateRoundChange(p0.State, p0.config, (p0.State.Round + 1:Round), p0.StartValue))", "the announced round must be old+1"},
		{"round-change-broadcast", "ok(" + iN + "Instance.Broadcast(p0, p1, " + iN + "CreateRoundChange(p0.State, p0.config, (p0.State.Round + 1:Round), p0.StartValue)#0))", "the round change must be announced"},
	})

	// ---------------- R2
	ot := ctrlPkg + ".(*Controller).OnTimeout"
	k := atCalls(c, "C07-R2", ot, iN+"Instance.UponRoundTimeout", []Req{
		{"instance-exists", "nonnil(" + cN + "InstanceContainer.FindInstance(p0.StoredInstances, ssv/protocol/v2/types.EventMsg.GetTimeoutData(p2)#0.Height))", ""},
		{"not-lower-round", "le(" + cN + "InstanceContainer.FindInstance(p0.StoredInstances, ssv/protocol/v2/types.EventMsg.GetTimeoutData(p2)#0.Height).State.Round, ssv/protocol/v2/types.EventMsg.GetTimeoutData(p2)#0.Round)", "timeouts of earlier rounds change nothing"},
		{"not-decided", "F(" + iN + "Instance.IsDecided(*)#0) || F(" + cN + "InstanceContainer.FindInstance(*).State.Decided)", "a decided instance ignores timeouts"},
	})
	c.Min("C07-R2", k, 1, "UponRoundTimeout call in Controller.OnTimeout")
	// …and nothing stronger: a timeout for the CURRENT round must reach the instance
	if f := fn(c, "C07-R2", ot); f != nil {
		for _, s := range callsIn(f, iN+"Instance.UponRoundTimeout") {
			facts := s.Facts(c)
			strict := ""
			for _, key := range facts.Keys() {
				if strings.HasPrefix(key, "lt(") && strings.Contains(key, ".State.Round, ") && strings.Contains(key, "GetTimeoutData") {
					strict = key
				}
				if strings.HasPrefix(key, "ne(") && strings.Contains(key, ".State.Round") && strings.Contains(key, "GetTimeoutData(p2)#0.Round") {
					strict = key
				}
			}
			c.Decide(strict == "", "C07-R2", "OnTimeout|current-round timeout is delivered", c.P.Pos(s.Instr.Pos()), "no strict round guard", "the timeout of the current round is refused ("+clip(strict)+"): the round would never advance")
		}
	}

	// ---------------- R3
	pq := inst + "uponChangeRoundPartialQuorum"
	ensures(c, "C07-R3", pq, "err=nil", []Req{
		{"bump", "called(" + iN + "Instance.bumpToRound(p0, p2))", ""},
		{"clear-accepted-proposal", "stored(p0.State.ProposalAcceptedForCurrentRound, nil)", ""},
		{"re-arm-timer", "called(" + timerArm + "p0.State.Height, p0.State.Round))", ""},
		{"round-change-created", "ok(" + iN + "CreateRoundChange(p0.State, p0.config, p2, p3))", ""},
		{"round-change-broadcast", "ok(" + iN + "Instance.Broadcast(p0, p1, " + iN + "CreateRoundChange(p0.State, p0.config, p2, p3)#0))", ""},
	})
	urc := inst + "uponRoundChange"
	// the function computing the round to jump to is found by its role (applied to the round
	// changes returned by hasReceivedPartialQuorum, result passed as the new round), not by name
	var minFn *ssa.Function
	minCall := iN + "minRound(" + iN + "hasReceivedPartialQuorum(p0.State, p4)#1)"
	if f := fn(c, "C07-R3", urc); f != nil {
		for _, s := range callsIn(f, iN+"Instance.uponChangeRoundPartialQuorum") {
			arg := s.Arg(c, 2)
			n := arg.String()
			h, _ := arg.Fn.(*ssa.Function)
			isMin := arg.K == "call" && h != nil && h.Pkg == f.Pkg && len(arg.A) == 1 && arg.A[0].String() == iN+"hasReceivedPartialQuorum(p0.State, p4)#1"
			c.Decide(isMin, "C07-R3", "uponRoundChange|jump to minRound", c.P.Pos(s.Instr.Pos()), n, "the operator jumps to "+n+" instead of the minimum round of the f+1 round changes")
			if isMin {
				minFn, minCall = h, n
			}
		}
	}
	k = atCalls(c, "C07-R3", urc, iN+"Instance.uponChangeRoundPartialQuorum", []Req{
		{"partial-quorum", "T(" + iN + "hasReceivedPartialQuorum(p0.State, p4)#0)", "f+1 round changes for higher rounds pull the operator forward"},
		{"higher-round", "lt(p0.State.Round, " + minCall + ")", "only forward"},
		{"no-leader-justification", "isnil(" + iN + "hasReceivedProposalJustificationForLeadingRound(*)#0)", ""},
	})
	c.Min("C07-R3", k, 1, "partial-quorum jump in uponRoundChange")
	ensures(c, "C07-R3", instPkg+".hasReceivedPartialQuorum", "r0=true", []Req{
		{"f+1", "T(ssv-spec/qbft.HasPartialQuorum(p0.Share, *))", "the jump needs f+1 distinct signers"},
	})
	k = atCalls(c, "C07-R3", instPkg+".hasReceivedPartialQuorum", "append", []Req{
		{"higher-rounds-only", "lt(p0.Round, ssv-spec/qbft.MsgContainer.AllMessaged(p1)[_].Message.Round)", "only round changes for rounds above the current one count"},
	})
	c.Min("C07-R3", k, 1, "filter in hasReceivedPartialQuorum")
	// leader branch
	k = atCalls(c, "C07-R3", urc, iN+"CreateProposal", []Req{
		{"justified", "nonnil(" + iN + "hasReceivedProposalJustificationForLeadingRound(p0.State, p0.config, p2, p3, p4, p5)#0)", "the leader proposes when a justification exists"},
		{"first-from-signer", "T(ssv-spec/qbft.MsgContainer.AddFirstMsgForSignerAndRound(p4, p3)#0)", ""},
	})
	c.Min("C07-R3", k, 1, "leader proposal in uponRoundChange")
	hj := instPkg + ".hasReceivedProposalJustificationForLeadingRound"
	if f := fn(c, "C07-R3", hj); f != nil {
		a := c.E.Analyze(f)
		exits, _ := a.Exits("err=nil")
		rcs := "ssv-spec/qbft.MsgContainer.MessagesForRound(p4, p3.Message.Round)"
		call := iN + "isProposalJustificationForLeadingRound(p0, p1, " + rcs + "[_], " + rcs + ", *)"
		nGiveUp, nFound := 0, 0
		for _, ex := range exits {
			if _, q := ex.Facts.Has("T(ssv-spec/qbft.HasQuorum(p0.Share, " + rcs + "))"); !q {
				continue // the no-quorum early return
			}
			if _, found := ex.Facts.Has("ok(" + call + ")"); found {
				nFound++
				n := a.D.D(ex.Ret.Results[0]).String()
				c.Decide(n == rcs+"[_]", "C07-R3", "hasReceivedProposalJustificationForLeadingRound|returns the justified round change", c.P.Pos(ex.Ret.Pos()), n, "returns "+n+" instead of the round change that justified the proposal")
				continue
			}
			nGiveUp++
			_, all := ex.Facts.Has("forall(fail(" + call + "))")
			c.Decide(all, "C07-R3", "hasReceivedProposalJustificationForLeadingRound|gives up only after trying every round change", c.P.Pos(ex.Ret.Pos()), "forall(fail(isProposalJustificationForLeadingRound(rc)))",
				"the search for a proposal justification can give up without having tried every round change of the round: one bad (last) message would block the leader")
		}
		c.Decide(nGiveUp == 1 && nFound == 1, "C07-R3", "hasReceivedProposalJustificationForLeadingRound|exit shape", c.P.Pos(f.Pos()), "one found exit, one give-up exit", "unexpected exits after the quorum check")
	}
	ensures(c, "C07-R3", instPkg+".isProposalJustificationForLeadingRound", "err=nil", []Req{
		{"justified", "ok(" + iN + "isReceivedProposalJustification(p0, p1, p3, p4, p2.Message.Round, p5, p6))", ""},
		{"i-am-leader", "eq(" + iN + "proposer(p0, p1, p2.Message.Round), p0.Share.OperatorID)", "only the leader of that round proposes"},
		{"state-clause", "or(state-clause)", ""},
	})
	// future justified proposal
	up := inst + "uponProposal"
	k = atCalls(c, "C07-R3", up, "ssv/protocol/v2/qbft/roundtimer.Timer.TimeoutForRound", []Req{
		{"future-round", "lt(p0.State.Round, p2.Message.Round)", "the timer is re-armed when a justified proposal of a later round is accepted"},
		{"first-from-signer", "T(ssv-spec/qbft.MsgContainer.AddFirstMsgForSignerAndRound(p3, p2)#0)", ""},
	})
	c.Min("C07-R3", k, 1, "timer re-arm in uponProposal")
	if f := fn(c, "C07-R3", up); f != nil {
		ok := false
		for _, s := range callsIn(f, iN+"Instance.bumpToRound") {
			if s.Arg(c, 1).String() == "p2.Message.Round" {
				ok = true
			}
		}
		c.Decide(ok, "C07-R3", "uponProposal|bump to the proposal's round", c.P.Pos(f.Pos()), "bumpToRound(msg.Round)", "accepting a proposal does not move the operator to the proposal's round")
	}
	// the round jumped to is the MINIMUM of the f+1 higher rounds: in minRound the running value is
	// replaced only when it is unset or strictly above the candidate (a maximum would let one
	// Byzantine round change for a far round drag every correct operator past the cut-off round)
	if minFn == nil {
		c.Undischarged("C07-R3", "minRound|body", "the function computing the round to jump to was not identified in uponRoundChange")
	} else {
		f := minFn
		a := c.E.Analyze(f)
		n := 0
		for _, b := range f.Blocks {
			for _, in := range b.Instrs {
				phi, ok := in.(*ssa.Phi)
				if !ok {
					continue
				}
				acc := a.D.D(phi).String()
				for i, e := range phi.Edges {
					cand := a.D.D(e).String()
					if !strings.HasSuffix(cand, ".Message.Round") || i >= len(b.Preds) {
						continue
					}
					n++
					pred := b.Preds[i]
					facts := a.FactsAt(pred.Instrs[len(pred.Instrs)-1])
					_, unset := facts.Has("eq(0:Round, " + acc + ")")
					_, lower := facts.Has("lt(" + cand + ", " + acc + ")")
					_, either := facts.Has("when(ne(0:Round, " + acc + ") => lt(" + cand + ", " + acc + "))")
					c.Decide(unset || lower || either, "C07-R3", "minRound|replaced only when unset or strictly above the candidate", c.P.Pos(pred.Instrs[len(pred.Instrs)-1].Pos()), "unset ∨ candidate < current",
						"minRound takes "+cand+" without it being below the current value: the result is not the minimum round of the round changes")
				}
			}
		}
		c.Decide(n == 1, "C07-R3", "minRound|one update site", c.P.Pos(f.Pos()), "", fmt.Sprintf("%d update sites", n))
	}
	// ---------------- R4: a prepared operator's round change is one its peers accept.
	// validRoundChangeForData accepts a prepared round change only with a quorum of prepares valid for
	// (height, DataRound, Root); the creator must therefore attach the prepares of LastPreparedRound,
	// validated for exactly the (round, root) it announces — in every later round, not only the next one.
	gj := instPkg + ".getRoundChangeJustification"
	if f := fn(c, "C07-R4", gj); f != nil {
		a := c.E.Analyze(f)
		want := iN + "validSignedPrepareForHeightRoundAndRoot(p1, ssv-spec/qbft.MsgContainer.MessagesForRound(p2, p0.LastPreparedRound)[_], p0.Height, p0.LastPreparedRound, ssv-spec/qbft.HashDataRoot(p0.LastPreparedValue)#0, p0.Share.Committee)"
		n := 0
		for _, s := range callsIn(f, iN+"validSignedPrepareForHeightRoundAndRoot") {
			n++
			got := a.D.Call(s.Instr).String()
			c.Decide(got == want, "C07-R4", "getRoundChangeJustification|prepares of LastPreparedRound validated for (Height, LastPreparedRound, root of LastPreparedValue)", c.P.Pos(s.Instr.Pos()), got,
				"the justification is built by "+got+": prepares must be taken from, and validated for, State.LastPreparedRound and the root of LastPreparedValue — otherwise every round change after the first carries no justification and peers reject it (no later round can gather a quorum)")
		}
		c.Decide(n == 1, "C07-R4", "getRoundChangeJustification|one validation site", c.P.Pos(f.Pos()), "", fmt.Sprintf("%d validation call sites", n))
		exits, _ := a.Exits("err=nil")
		nq := 0
		for _, ex := range exits {
			r0 := a.D.D(ex.Ret.Results[0]).String()
			if r0 == "nil" {
				continue
			}
			nq++
			_, ok := ex.Facts.Has("T(*HasQuorum(p0.Share, *")
			c.Decide(ok, "C07-R4", "getRoundChangeJustification|returned only with a quorum", c.P.Pos(ex.Ret.Pos()), "under HasQuorum", "a justification is returned without a quorum of valid prepares")
		}
		c.Decide(nq == 1, "C07-R4", "getRoundChangeJustification|one justified exit", c.P.Pos(f.Pos()), "", fmt.Sprintf("%d exits return a justification", nq))
	}
	if f := fn(c, "C07-R4", instPkg+".getRoundChangeData"); f != nil {
		a := c.E.Analyze(f)
		exits, _ := a.Exits("err=nil")
		np := 0
		for _, ex := range exits {
			var rs []string
			for _, r := range ex.Ret.Results[:4] {
				rs = append(rs, a.D.D(r).String())
			}
			got := strings.Join(rs, " ; ")
			if strings.HasPrefix(got, "0:Round") {
				_, unprep := ex.Facts.Has("or(unprepared)")
				c.Decide(unprep, "C07-R4", "getRoundChangeData|unprepared only when nothing was prepared", c.P.Pos(ex.Ret.Pos()), "under LastPreparedRound == NoRound or LastPreparedValue == nil", "an unprepared round change is produced although a value was prepared")
				continue
			}
			np++
			want := "p0.LastPreparedRound ; ssv-spec/qbft.HashDataRoot(p0.LastPreparedValue)#0 ; p0.LastPreparedValue ; " + iN + "getRoundChangeJustification(p0, p1, p0.PrepareContainer)#0"
			c.Decide(got == want, "C07-R4", "getRoundChangeData|announces (LastPreparedRound, root, value) with the justification built for them", c.P.Pos(ex.Ret.Pos()), got, "the prepared round-change data is ("+got+"), not (LastPreparedRound, root of LastPreparedValue, LastPreparedValue, its justification)")
		}
		c.Decide(np == 1, "C07-R4", "getRoundChangeData|one prepared exit", c.P.Pos(f.Pos()), "", fmt.Sprintf("%d prepared exits", np))
	}
	// CreateRoundChange ships exactly that data
	ensures(c, "C07-R4", instPkg+".CreateRoundChange", "err=nil", []Req{
		{"data-from-state", "ok(" + iN + "getRoundChangeData(p0, p1, p3))", ""},
		{"justification-marshalled", "ok(ssv-spec/qbft.MarshalJustifications(" + iN + "getRoundChangeData(p0, p1, p3)#3))", "the justification returned for the prepared value is the one attached"},
	})
}

func init() {
	register(&Check{
		Prop:  "C17",
		Pkgs:  []string{"./..."},
		Setup: qbftSetup,
		Explain: "'Not before the deadline' and 'at most once per arming' as timing behaviours over goroutine schedules are NOT decided. Decided: " +
			"(R1) the timeout callback t.done has a single invocation site, inside waitForRound, dominated by the receive on the timer channel (not context cancellation), by t.Round()==round (the armed round passed to this goroutine), by done≠nil, under the read lock; its argument is that round; " +
			"(R2) RoundTimer.round is accessed only by TimeoutForRound (atomic store) and Round (atomic load); the store precedes the start of the waiting goroutine, which receives the same round and the channel of a timer reset to RoundTimeout(height, round) of the same arguments; " +
			"(R3) Controller.OnTimeout ignores timeouts for unknown heights, lower rounds and decided instances (= C07-R2); Validator.onTimeout enqueues only when the validator is started and the runner has a running duty; " +
			"(R4) RoundTimeout for the slot-anchored roles is time.Until(GetSlotStartTime(height) + base(role) + cumulative(round)).",
		Rules: []string{
			"C17-R1 who-invokes(RoundTimer.done) = {waitForRound}; facts-before ∋ {timer channel case, round equality, done≠nil, RLock}",
			"C17-R2 who-references(RoundTimer.round); facts-before(go waitForRound) ∋ {store, timer reset with RoundTimeout(height, round)}",
			"C17-R3 facts-before(UponRoundTimeout) and (TryPush in onTimeout)",
			"C17-R4 return-expression shape of RoundTimeout; normal form of the cumulative allowance and the comparison side selecting each form",
		},
		Trusted: []string{"Go runtime timers", "go/types + go/ssa"},
		Run:     runC17,
	})
}

func runC17(c *core.Ctx) {
	rt := rtPkg + ".(*RoundTimer)."
	// ---------------- R1
	fv, err := c.P.LookupField(rtPkg + ".RoundTimer.done")
	if err != nil {
		c.Undischarged("C17-R1", "anchor:RoundTimer.done", err.Error())
		return
	}
	isDoneCall := func(ci ssa.CallInstruction, _ string) bool {
		// callee is (a copy of) a load of t.done
		ld, ok := ci.Common().Value.(*ssa.UnOp)
		if !ok || ld.Op != token.MUL {
			return false
		}
		fa, ok := ld.X.(*ssa.FieldAddr)
		return ok && fieldVar(fa) == fv
	}
	// the invocation sites reachable from waitForRound (through its closures and private helpers) …
	fromWait := map[ssa.Instruction]bool{}
	n := 0
	if wf := fn(c, "C17-R1", rt+"waitForRound"); wf != nil {
		for _, s := range callsWhere(wf, isDoneCall) {
			n++
			fromWait[s.Instr] = true
			ci := s.Instr
			facts := s.Facts(c)
			arg := ""
			if len(ci.Common().Args) == 1 {
				arg = s.Arg(c, 0).String()
			}
			c.Decide(arg == "p1", "C17-R1", "waitForRound|callback argument is the armed round", c.P.Pos(ci.Pos()), arg, "the callback is invoked with "+arg+" instead of the round this goroutine was armed for")
			for _, r := range []Req{
				{"timer-channel-case", "eq(1, select(<-context.Context.Done(*), <-p2)#0)", "the callback fires on timer expiry only, not on cancellation"},
				{"armed-round-still-current", "eq(p1, " + rtN + "RoundTimer.Round(p0))", "a superseded arming must not fire"},
				{"callback-set", "nonnil(p0.done)", ""},
				{"read-locked", "deferred(sync.RWMutex.RUnlock(p0.mtx))", "t.done is read under the lock"},
			} {
				k, ok := facts.Has(r.Pat)
				c.Decide(ok, "C17-R1", "waitForRound|"+r.Name, c.P.Pos(ci.Pos()), clip(k), "the timeout callback can fire without "+r.Pat+" — "+r.Why)
			}
		}
	}
	// … are the only ones
	for _, f := range c.P.SourceFuncs(rtPkg) {
		for _, b := range f.Blocks {
			for _, in := range b.Instrs {
				ci, ok := in.(ssa.CallInstruction)
				if !ok || !isDoneCall(ci, "") {
					continue
				}
				encl := enclName(f)
				c.Decide(fromWait[in], "C17-R1", "RoundTimer.done|invoked from "+encl, c.P.Pos(ci.Pos()), "reached only from waitForRound", "the timeout callback is fired from "+encl+", outside waitForRound")
			}
		}
	}
	c.Decide(n == 1, "C17-R1", "RoundTimer.done|single invocation site", "", "1 site", "the callback has not exactly one invocation site")
	ensures(c, "C17-R1", rt+"Round", "any", []Req{{"atomic-load", "called(sync/atomic.LoadInt64(p0.round))", "Round() must read the armed round"}})

	// ---------------- R2
	rv, err := c.P.LookupField(rtPkg + ".RoundTimer.round")
	if err != nil {
		c.Undischarged("C17-R2", "anchor:RoundTimer.round", err.Error())
		return
	}
	refs := map[string]int{}
	for _, f := range nodeFuncs(c) {
		for _, b := range f.Blocks {
			for _, in := range b.Instrs {
				if fa, ok := in.(*ssa.FieldAddr); ok && fieldVar(fa) == rv {
					refs[enclName(f)]++
				}
			}
		}
	}
	for encl := range refs {
		ok := encl == rtN+"RoundTimer.TimeoutForRound" || encl == rtN+"RoundTimer.Round"
		c.Decide(ok, "C17-R2", "RoundTimer.round|referenced from "+encl, "", "allow-listed", "the armed round is touched by "+encl+"; only TimeoutForRound may set it")
	}
	c.Min("C17-R2", len(refs), 2, "functions referencing RoundTimer.round")
	tfr := rt + "TimeoutForRound"
	if f := fn(c, "C17-R2", tfr); f != nil {
		a := c.E.Analyze(f)
		k := 0
		for _, b := range f.Blocks {
			for _, in := range b.Instrs {
				g, ok := in.(*ssa.Go)
				if !ok {
					continue
				}
				k++
				facts := a.FactsAt(g)
				node := a.D.Call(g).String()
				for _, r := range []Req{
					{"round-stored-first", "called(sync/atomic.StoreInt64(p0.round, int64(p2)))", "the armed round must be published before the waiter starts"},
					{"timer-reset-to-deadline", "called(time.Timer.Reset(*, " + rtN + "RoundTimer.RoundTimeout(p0, p1, p2)))", "the timer must be armed with the deadline of the same (height, round)"},
				} {
					kk, ok := facts.Has(r.Pat)
					c.Decide(ok, "C17-R2", "TimeoutForRound|"+r.Name, c.P.Pos(g.Pos()), clip(kk), "waiter started without "+r.Pat+" — "+r.Why)
				}
				c.Decide(strings.HasPrefix(node, rtN+"RoundTimer.waitForRound(p0, p2, ") && strings.HasSuffix(node, ".C)"), "C17-R2", "TimeoutForRound|waiter gets the armed round and the timer's channel", c.P.Pos(g.Pos()), clip(node), "the waiter is started as "+clip(node))
			}
		}
		c.Min("C17-R2", k, 1, "go waitForRound sites")
	}

	// ---------------- R3
	ot := ctrlPkg + ".(*Controller).OnTimeout"
	k := atCalls(c, "C17-R3", ot, iN+"Instance.UponRoundTimeout", []Req{
		{"known-height", "nonnil(" + cN + "InstanceContainer.FindInstance(p0.StoredInstances, ssv/protocol/v2/types.EventMsg.GetTimeoutData(p2)#0.Height))", "a timeout for another height changes nothing"},
		{"not-lower-round", "le(" + cN + "InstanceContainer.FindInstance(*).State.Round, ssv/protocol/v2/types.EventMsg.GetTimeoutData(p2)#0.Round)", "a timeout of an earlier round changes nothing"},
		{"not-decided", "F(" + iN + "Instance.IsDecided(*)#0) || F(" + cN + "InstanceContainer.FindInstance(*).State.Decided)", "a decided instance ignores timeouts"},
		{"data-decoded", "ok(ssv/protocol/v2/types.EventMsg.GetTimeoutData(p2))", ""},
	})
	c.Min("C17-R3", k, 1, "UponRoundTimeout call in OnTimeout")
	// what makes a timeout event of ANOTHER height harmless is that instances of other heights are
	// force-stopped when a new one starts: the stop runs after the controller height moved to the new
	// height (it exempts the instance at c.Height), and stops exactly the instances of other heights
	sni := ctrlPkg + ".(*Controller).StartNewInstance"
	k = atCalls(c, "C17-R3", sni, cN+"Controller.forceStopAllInstanceExceptCurrent", []Req{
		{"height-moved-first", "stored(p0.Height, p2)", "the exempted 'current' instance must be the new one: stopping before the height moves leaves the previous instance running"},
	})
	c.Min("C17-R3", k, 1, "force-stop in StartNewInstance")
	atCalls(c, "C17-R3", ctrlPkg+".(*Controller).forceStopAllInstanceExceptCurrent", iN+"Instance.ForceStop", []Req{
		{"other-heights-only", "ne(p0.Height, p0.StoredInstances[_].State.Height)", "every instance of another height is stopped, the current one is not"},
	})
	ensures(c, "C17-R3", instPkg+".(*Instance).UponRoundTimeout", "err=nil", []Req{
		{"refused-when-stopped", "T(" + iN + "Instance.CanProcessMessages(p0))", "a force-stopped instance ignores timeouts"},
	})
	ensures(c, "C17-R3", instPkg+".(*Instance).CanProcessMessages", "ret=true", []Req{
		{"not-force-stopped", "F(p0.forceStop)", ""},
	})
	vo := ssv + "protocol/v2/ssv/validator.(*Validator).onTimeout"
	if _, err := c.P.Func(vo); err == nil {
		k = atCalls(c, "C17-R3", vo, "ssv/protocol/v2/ssv/queue.Queue.TryPush", []Req{
			{"validator-started", "eq(1, p0.state) || eq(p0.state, 1) || eq(*Started*, p0.state)", "timeouts of a stopped validator are dropped"},
			{"running-duty", "T(ssv/protocol/v2/ssv/runner.Runner.HasRunningDuty(*))", "timeouts without running duty are dropped"},
			{"read-locked", "deferred(sync.RWMutex.RUnlock(p0.mtx))", ""},
		})
		c.Min("C17-R3", k, 1, "TryPush in Validator.onTimeout")
	} else {
		c.Undischarged("C17-R3", "anchor:Validator.onTimeout", err.Error())
	}

	// ---------------- R4
	if f := fn(c, "C17-R4", rt+"RoundTimeout"); f != nil {
		a := c.E.Analyze(f)
		exits, _ := a.Exits("any")
		anchored := 0
		for _, ex := range exits {
			n := a.D.D(ex.Ret.Results[0])
			s := n.String()
			if !strings.Contains(s, "time.Until(") {
				continue
			}
			anchored++
			ok := strings.Contains(s, "time.Until(time.Time.Add(ssv/protocol/v2/qbft/roundtimer.BeaconNetwork.GetSlotStartTime(p0.beaconNetwork, p1), (")
			c.Decide(ok, "C17-R4", "RoundTimeout|deadline anchored at the duty's slot start", c.P.Pos(ex.Ret.Pos()), clip(s), "the deadline is not slot start + base + additional: "+clip(s))
			base := strings.Contains(s, "SlotDurationSec") && strings.Contains(s, "/ 3:Duration)")
			add := strings.Contains(s, "p0.timeoutOptions.quick") && strings.Contains(s, "p0.timeoutOptions.slow")
			c.Decide(base && add, "C17-R4", "RoundTimeout|base(role)+cumulative(round)", c.P.Pos(ex.Ret.Pos()), "base and cumulative parts present", "the deadline lost its role base or its cumulative per-round allowance: "+clip(s))
		}
		c.Decide(anchored == 1, "C17-R4", "RoundTimeout|one slot-anchored return", c.P.Pos(f.Pos()), "1", "expected one slot-anchored return")
		// the per-round allowance is cumulative: round·quick up to the threshold, then
		// threshold·quick + (round − threshold)·slow (normal form, commutative operands sorted);
		// anything smaller makes late rounds fire before their deadline
		for _, ex := range exits {
			n := a.D.D(ex.Ret.Results[0])
			if !strings.Contains(n.String(), "time.Until(") {
				continue
			}
			var phis []string
			n.Walk(func(m *ens.Node) {
				if m.K == "phi" {
					var alts []string
					for _, x := range m.A {
						alts = append(alts, canonArith(x))
					}
					sort.Strings(alts)
					phis = append(phis, strings.Join(alts, " | "))
				}
			})
			want := "((p0.timeoutOptions.quick * time.Duration(p0.timeoutOptions.quickThreshold)) + (p0.timeoutOptions.slow * time.Duration(int((p2 - p0.timeoutOptions.quickThreshold))))) | (p0.timeoutOptions.quick * time.Duration(int(p2)))"
			found := false
			for _, p := range phis {
				if p == want {
					found = true
				}
			}
			if os.Getenv("VERIF_C17_DEBUG") != "" {
				fmt.Fprintln(os.Stderr, "C17 phis:", strings.Join(phis, "\n  "))
			}
			c.Decide(found, "C17-R4", "RoundTimeout|cumulative allowance = round·quick ≤ threshold, threshold·quick + (round−threshold)·slow above", c.P.Pos(ex.Ret.Pos()), "normal form matches",
				"the per-round allowance is no longer round·quick up to the threshold and threshold·quick + (round − threshold)·slow above it: late rounds get a deadline before the role's deadline; got: "+clip(strings.Join(phis, " ;; ")))
		}
		// … and each form is selected by the matching side of round ≤ quickThreshold
		nsel := 0
		for _, b := range f.Blocks {
			for _, in := range b.Instrs {
				phi, ok := in.(*ssa.Phi)
				if !ok {
					continue
				}
				for i, e := range phi.Edges {
					if i >= len(b.Preds) {
						continue
					}
					form := canonArith(a.D.D(e))
					var need string
					switch form {
					case "(p0.timeoutOptions.quick * time.Duration(int(p2)))":
						need = "le(p2, p0.timeoutOptions.quickThreshold)"
					case "((p0.timeoutOptions.quick * time.Duration(p0.timeoutOptions.quickThreshold)) + (p0.timeoutOptions.slow * time.Duration(int((p2 - p0.timeoutOptions.quickThreshold)))))":
						need = "lt(p0.timeoutOptions.quickThreshold, p2)"
					default:
						continue
					}
					nsel++
					pred := b.Preds[i]
					_, has := a.FactsAt(pred.Instrs[len(pred.Instrs)-1]).Has(need)
					c.Decide(has, "C17-R4", "RoundTimeout|allowance form "+fmt.Sprint(nsel)+" selected by "+need, c.P.Pos(pred.Instrs[len(pred.Instrs)-1].Pos()), need,
						"the allowance "+form+" is used without "+need+": the quick and slow regimes are applied to the wrong rounds")
				}
			}
		}
		c.Min("C17-R4", nsel, 2, "allowance forms in RoundTimeout")
		// the flat (non slot-anchored) timeouts are only for the remaining roles
		for _, ex := range exits {
			if strings.Contains(a.D.D(ex.Ret.Results[0]).String(), "time.Until(") {
				continue
			}
			ok := true
			for _, role := range []string{"0", "1", "3", "4"} {
				if _, has := ex.Facts.Has("ne(" + role + ":BeaconRole, p0.role)"); !has {
					ok = false
				}
			}
			c.Decide(ok, "C17-R4", "RoundTimeout|flat timeout only outside the four slot-anchored roles", c.P.Pos(ex.Ret.Pos()), "default branch", "a slot-anchored role (attester, aggregator, sync committee, contribution) gets a timeout that is not measured from the duty's slot start")
		}
	}
	_ = ens.Glob
}
