package rules

import (
	"fmt"
	"go/types"
	"strings"

	"golang.org/x/tools/go/ssa"

	"verif/ssvcheck/internal/core"
	"verif/ssvcheck/internal/ens"
)

const commonsPkg = ssv + "network/commons"
const cmN = "ssv/network/commons."

func init() {
	register(&Check{
		Prop: "C18",
		Pkgs: []string{"./..."},
		Explain: "Round-trip equality for every payload and the 128-bit subnet string codec are value statements and are NOT decided. Decided: " +
			"(R1) single mapping: the topic of a validator key is computed by commons.ValidatorTopicID at every site that needs it (publish, subscribe, unsubscribe, peers, sync, and the receiving validator), with the validator key (msg id's key) as argument; ValidatorTopicID is SubnetTopicID(ValidatorSubnet(hex(pk))); the topics controller adds the prefix with GetTopicFullName on publish/subscribe/peers (observation, outside the property: topicsCtrl.Unsubscribe is handed the base name and does not add the prefix), validation strips it with GetTopicBaseName; the two are inverse by shape: full = Sprintf(\"%s.%s\", topicPrefix, base) and base = Replace(full, Sprintf(\"%s.\", topicPrefix), \"\", 1) or TrimPrefix — both reference the same topicPrefix constant; nobody else formats a validator topic; " +
			"(R2) range: ValidatorSubnet reduces modulo the same subnetsCount constant object that Subnets()/Topics() enumerate; malformed short keys map to -1 → \"unknown\"; " +
			"(R3) envelope layout: the constant-folded offsets written by EncodeSignedSSVMessage ([0,256) signature, [256,264) operator id little-endian, [264,…) message, total 264+len) equal those read by DecodeSignedSSVMessage, both use binary.LittleEndian, and the decoder's length guard equals the message offset.",
		Rules: []string{
			"C18-R1 who-may-call / argument shape of ValidatorTopicID; prefix add/strip inverse shapes on one constant",
			"C18-R2 constant-object identity of subnetsCount; short-key guard",
			"C18-R3 constant-folded slice bounds of encoder and decoder agree",
		},
		Trusted: []string{"go/types + go/ssa", "fmt/strings semantics of the enumerated idioms"},
		Run:     runC18,
	})
}

func runC18(c *core.Ctx) {
	// ---------------- R1
	vt, err := c.P.LookupFunc(commonsPkg + ".ValidatorTopicID")
	if err != nil {
		c.Undischarged("C18-R1", "anchor:ValidatorTopicID", err.Error())
		return
	}
	allow := map[string]string{
		"ssv/network/p2p.p2pNetwork.Peers":                           "pk parameter",
		"ssv/network/p2p.p2pNetwork.Broadcast":                       "msg id pubkey",
		"ssv/network/p2p.p2pNetwork.Unsubscribe":                     "pk parameter",
		"ssv/network/p2p.p2pNetwork.subscribe":                       "pk parameter",
		"ssv/network/p2p.p2pNetwork.getSubsetOfPeers":                "sync",
		"ssv/message/validation.messageValidator.validateP2PMessage": "receiving side",
	}
	sites := whoMayCall(c, "C18-R1", "commons.ValidatorTopicID", mapOf(vt), nil, allow)
	c.Min("C18-R1", len(sites), 6, "ValidatorTopicID call sites")
	for _, s := range sites {
		a := c.E.Analyze(s.Encl)
		arg := a.D.D(s.Instr.Common().Args[0]).String()
		encl := enclName(s.Encl)
		// the argument is the validator key: a parameter, or the pubkey of the message id
		ok := arg == "p1" || strings.HasPrefix(arg, "ssv-spec/types.MessageID.GetPubKey(") || arg == "p2"
		c.Decide(ok, "C18-R1", "ValidatorTopicID in "+encl+"|argument is the validator key", c.P.Pos(s.Instr.Pos()), arg, "the topic in "+encl+" is computed from "+clip(arg)+", not from the validator key")
	}
	// broadcast and validation use the message's own key
	for _, fnSpec := range []string{ssv + "network/p2p.(*p2pNetwork).Broadcast", mvPkg + ".(*messageValidator).validateP2PMessage"} {
		f := fn(c, "C18-R1", fnSpec)
		if f == nil {
			continue
		}
		for _, s := range callsIn(f, cmN+"ValidatorTopicID") {
			arg := s.Arg(c, 0).String()
			c.Decide(ens.Glob("ssv-spec/types.MessageID.GetPubKey(*MsgID)", arg), "C18-R1", short(fnSpec)+"|topic of the message's own validator key", c.P.Pos(s.Instr.Pos()), clip(arg), "the topic is not derived from the message id's public key: "+clip(arg))
		}
	}
	// ValidatorTopicID = [SubnetTopicID(ValidatorSubnet(hex(pk)))]
	if f := fn(c, "C18-R1", commonsPkg+".ValidatorTopicID"); f != nil {
		a := c.E.Analyze(f)
		ex, _ := a.Exits("any")
		got := ""
		if len(ex) == 1 {
			got = a.D.D(ex[0].Ret.Results[0]).String()
		}
		want := "new:[1]string{0: " + cmN + "SubnetTopicID(" + cmN + "ValidatorSubnet(encoding/hex.EncodeToString(p0)))}[:]"
		c.Decide(got == want, "C18-R1", "ValidatorTopicID|= [SubnetTopicID(ValidatorSubnet(hex(pk)))]", c.P.Pos(f.Pos()), got, "ValidatorTopicID computes "+clip(got))
	}
	// prefix add / strip
	checkPrefixInverse(c)
	// where the prefix is added / stripped
	tc := ssv + "network/topics.(*topicsCtrl)."
	for _, m := range []string{"Subscribe", "Broadcast", "Peers"} {
		k := atCalls(c, "C18-R1", tc+m, cmN+"GetTopicFullName", nil)
		c.Min("C18-R1", k, 1, "topicsCtrl."+m+" adds the prefix")
	}
	k := atCalls(c, "C18-R1", mvPkg+".(*messageValidator).validateP2PMessage", cmN+"GetTopicBaseName", nil)
	c.Min("C18-R1", k, 1, "validation strips the prefix")
	// nobody else formats a topic with the prefix constant
	checkPrefixUsers(c)

	// ---------------- R2
	checkSubnetsCount(c)
	ensures(c, "C18-R2", commonsPkg+".ValidatorSubnet", "any", nil)
	if f := fn(c, "C18-R2", commonsPkg+".ValidatorSubnet"); f != nil {
		a := c.E.Analyze(f)
		exits, _ := a.Exits("any")
		okShort, okMod := false, false
		for _, ex := range exits {
			v := a.D.D(ex.Ret.Results[0]).String()
			if v == "-1" {
				if _, ok := ex.Facts.Has("lt(len(p0), 10)"); ok {
					okShort = true
				}
			}
			if v == "int(("+cmN+"hexToUint64(p0[:10]) % 128))" {
				if _, ok := ex.Facts.Has("le(10, len(p0))"); ok {
					okMod = true
				}
			}
		}
		c.Decide(okShort, "C18-R2", "ValidatorSubnet|short keys map to -1", c.P.Pos(f.Pos()), "-1 under len<10", "malformed short keys no longer map to the unknown subnet")
		c.Decide(okMod, "C18-R2", "ValidatorSubnet|first 10 hex digits modulo subnetsCount", c.P.Pos(f.Pos()), "hexToUint64(pk[:10]) % 128", "the subnet is not the first ten hex digits modulo the subnet count")
	}
	ensures(c, "C18-R2", commonsPkg+".SubnetTopicID", "any", nil)
	if f := fn(c, "C18-R2", commonsPkg+".SubnetTopicID"); f != nil {
		a := c.E.Analyze(f)
		exits, _ := a.Exits("any")
		okUnknown, okNum := false, false
		for _, ex := range exits {
			v := a.D.D(ex.Ret.Results[0]).String()
			if v == "\"unknown\"" {
				if _, ok := ex.Facts.Has("lt(p0, 0)"); ok {
					okUnknown = true
				}
			}
			if strings.HasPrefix(v, "fmt.Sprintf(\"%d\", ") && strings.Contains(v, "p0") {
				okNum = true
			}
		}
		c.Decide(okUnknown && okNum, "C18-R2", "SubnetTopicID|decimal name, negative → unknown", c.P.Pos(f.Pos()), "%d / unknown", "SubnetTopicID no longer maps a subnet to its decimal name (negative → \"unknown\")")
	}

	// ---------------- R3
	checkEnvelope(c)
}

// checkPrefixInverse: GetTopicFullName and GetTopicBaseName are inverse by
// shape, over the same prefix constant.
func checkPrefixInverse(c *core.Ctx) {
	full := fn(c, "C18-R1", commonsPkg+".GetTopicFullName")
	base := fn(c, "C18-R1", commonsPkg+".GetTopicBaseName")
	if full == nil || base == nil {
		return
	}
	fa, ba := c.E.Analyze(full), c.E.Analyze(base)
	fe, _ := fa.Exits("any")
	be, _ := ba.Exits("any")
	if len(fe) != 1 || len(be) != 1 {
		c.Undischarged("C18-R1", "GetTopicFullName/BaseName|shape", "expected single returns")
		return
	}
	fs := fa.D.D(fe[0].Ret.Results[0]).String()
	bs := ba.D.D(be[0].Ret.Results[0]).String()
	okFull := fs == "fmt.Sprintf(\"%s.%s\", new:[2]any{0: \"ssv.v2\", 1: p0}[:])"
	c.Decide(okFull, "C18-R1", "GetTopicFullName|prefix + \".\" + base", c.P.Pos(full.Pos()), fs, "the full topic name is "+fs)
	// accepted strip idioms (enumerated): Replace(full, prefix+".", "", 1) and TrimPrefix(full, prefix+".")
	pfx := []string{"fmt.Sprintf(\"%s.\", new:[1]any{0: \"ssv.v2\"}[:])", "\"ssv.v2.\"", "(\"ssv.v2\" + \".\")"}
	okBase := false
	for _, p := range pfx {
		if bs == "strings.Replace(p0, "+p+", \"\", 1)" || bs == "strings.TrimPrefix(p0, "+p+")" {
			okBase = true
		}
	}
	c.Decide(okBase, "C18-R1", "GetTopicBaseName|strips exactly the prefix GetTopicFullName adds", c.P.Pos(base.Pos()), bs,
		"the base topic name is computed as "+bs+", which is not one of the idioms that invert GetTopicFullName (strings.Replace(x, prefix+\".\", \"\", 1) / strings.TrimPrefix(x, prefix+\".\")): publisher/subscriber topic and the topic accepted by validation would differ for some subnets")
}

// checkPrefixUsers: the topicPrefix constant is referenced only by the two
// naming functions.
func checkPrefixUsers(c *core.Ctx) {
	pk := c.P.Pkg(commonsPkg)
	if pk == nil {
		return
	}
	obj, _ := pk.Types.Scope().Lookup("topicPrefix").(*types.Const)
	if obj == nil {
		c.Undischarged("C18-R1", "anchor:topicPrefix", "constant not found")
		return
	}
	users := map[string]bool{}
	for id, o := range pk.TypesInfo.Uses {
		if o == obj {
			users[enclosingFuncName(pk.TypesInfo, fileOf(pk.Syntax, id.Pos()), id)] = true
		}
	}
	for u := range users {
		ok := u == cmN+"GetTopicFullName" || u == cmN+"GetTopicBaseName"
		c.Decide(ok, "C18-R1", "topicPrefix|used by "+u, "", "naming function", "the topic prefix is also formatted by "+u+": a second way of naming topics can disagree with the first")
	}
	c.Min("C18-R1", len(users), 2, "functions referencing topicPrefix")
}

// checkSubnetsCount: ValidatorSubnet, Subnets (and through it Topics) use the
// same constant.
func checkSubnetsCount(c *core.Ctx) {
	pk := c.P.Pkg(commonsPkg)
	if pk == nil {
		return
	}
	obj, _ := pk.Types.Scope().Lookup("subnetsCount").(*types.Const)
	if obj == nil {
		c.Undischarged("C18-R2", "anchor:subnetsCount", "constant not found")
		return
	}
	users := map[string]bool{}
	for id, o := range pk.TypesInfo.Uses {
		if o == obj {
			users[enclosingFuncName(pk.TypesInfo, fileOf(pk.Syntax, id.Pos()), id)] = true
		}
	}
	c.Decide(users[cmN+"ValidatorSubnet"] && users[cmN+"Subnets"], "C18-R2", "subnetsCount|shared by ValidatorSubnet and Subnets", "", "same constant object", fmt.Sprintf("ValidatorSubnet uses subnetsCount: %v, Subnets uses it: %v — a validator's topic could fall outside the advertised range", users[cmN+"ValidatorSubnet"], users[cmN+"Subnets"]))
	// Topics() enumerates 0..Subnets()-1 through the same naming functions
	if f := fn(c, "C18-R2", commonsPkg+".Topics"); f != nil {
		k := len(callsIn(f, cmN+"Subnets")) + len(callsIn(f, cmN+"SubnetTopicID")) + len(callsIn(f, cmN+"GetTopicFullName"))
		c.Decide(k >= 3, "C18-R2", "Topics|enumerates GetTopicFullName(SubnetTopicID(i)) for i < Subnets()", c.P.Pos(f.Pos()), "uses the shared naming functions", "Topics() no longer enumerates the subnet range with the shared naming functions")
	}
}

// checkEnvelope compares the constant-folded layout of the encoder and the
// decoder of signed SSV messages.
func checkEnvelope(c *core.Ctx) {
	enc := fn(c, "C18-R3", commonsPkg+".EncodeSignedSSVMessage")
	dec := fn(c, "C18-R3", commonsPkg+".DecodeSignedSSVMessage")
	if enc == nil || dec == nil {
		return
	}
	ea, da := c.E.Analyze(enc), c.E.Analyze(dec)
	// encoder: make(264+len(msg)); copy(b[0:], sig); PutUint64(b[256:], id); copy(b[264:], msg)
	var encFacts []string
	for _, s := range callsIn(enc, "copy") {
		encFacts = append(encFacts, ea.D.Call(s.Instr).String())
	}
	for _, s := range callsIn(enc, "encoding/binary.littleEndian.PutUint64") {
		encFacts = append(encFacts, ea.D.Call(s.Instr).String())
	}
	joined := strings.Join(encFacts, " ; ")
	wantEnc := []struct{ name, pat string }{
		{"signature at [0:]", "copy(make:[]byte[0:], p2)"},
		{"operator id little-endian at [256:]", "encoding/binary.littleEndian.PutUint64(*, make:[]byte[256:], p1)"},
		{"message at [264:]", "copy(make:[]byte[264:], p0)"},
	}
	for _, w := range wantEnc {
		ok := false
		for _, f := range encFacts {
			if ens.Glob(w.pat, f) {
				ok = true
			}
		}
		c.Decide(ok, "C18-R3", "EncodeSignedSSVMessage|"+w.name, c.P.Pos(enc.Pos()), w.pat, "encoder layout changed: expected "+w.pat+", found "+clip(joined))
	}
	// total size = 264 + len(message)
	szOK := false
	for _, b := range enc.Blocks {
		for _, in := range b.Instrs {
			if ms, ok := in.(*ssa.MakeSlice); ok {
				if ea.D.D(ms.Len).String() == "(264 + len(p0))" || ea.D.D(ms.Len).String() == "(len(p0) + 264)" {
					szOK = true
				}
			}
		}
	}
	c.Decide(szOK, "C18-R3", "EncodeSignedSSVMessage|size = 264 + len(message)", c.P.Pos(enc.Pos()), "264+len(msg)", "the encoded envelope is not 256+8+len(message) bytes long")
	// decoder
	exits, _ := da.Exits("err=nil")
	if len(exits) != 1 {
		c.Undischarged("C18-R3", "DecodeSignedSSVMessage|shape", "expected one success return")
		return
	}
	r := exits[0].Ret.Results
	got := []string{da.D.D(r[0]).String(), da.D.D(r[1]).String(), da.D.D(r[2]).String()}
	want := []struct{ name, pat string }{
		{"message = encoded[264:]", "p0[264:]"},
		{"operator id = little-endian of encoded[256:264]", "encoding/binary.littleEndian.Uint64(*, p0[256:264])"},
		{"signature = encoded[0:256]", "p0[0:256]"},
	}
	for i, w := range want {
		c.Decide(ens.Glob(w.pat, got[i]), "C18-R3", "DecodeSignedSSVMessage|"+w.name, c.P.Pos(dec.Pos()), got[i], "decoder reads "+got[i]+" where the encoder wrote "+w.name)
	}
	_, guard := exits[0].Facts.Has("le(264, len(p0))")
	c.Decide(guard, "C18-R3", "DecodeSignedSSVMessage|length guard equals the message offset", c.P.Pos(dec.Pos()), "len(encoded) ≥ 264", "the decoder's length guard no longer equals the message offset (264): shorter inputs reach the slicing")
}
