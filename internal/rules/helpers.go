// Package rules holds one rule table per property.
package rules

import (
	"fmt"
	"go/ast"
	"go/token"
	"go/types"
	"sort"
	"strings"

	"golang.org/x/tools/go/ssa"

	"verif/ssvcheck/internal/core"
	"verif/ssvcheck/internal/ens"
	"verif/ssvcheck/internal/load"
)

const ssv = "github.com/bloxapp/ssv/"
const spec = "github.com/bloxapp/ssv-spec/"

// Req is a required fact: a name for reports, a glob pattern (alternatives
// separated by " || ") over canonical fact keys, and a one-line reason.
type Req struct {
	Name string
	Pat  string
	Why  string
}

// Check describes one registered property check.
type Check struct {
	Prop    string
	Pkgs    []string // package patterns needed for the quick tier ("./..." = everything)
	Run     func(c *core.Ctx)
	Explain string
	Rules   []string
	Trusted []string
	Assume  []string
	Setup   func(e *ens.Engine)
}

var Registry = map[string]*Check{}

func register(c *Check) { Registry[c.Prop] = c }

// fn resolves a function anchor or records an undischarged obligation.
func fn(c *core.Ctx, rule, spec string) *ssa.Function {
	f, err := c.P.Func(spec)
	if err != nil {
		c.Undischarged(rule, "anchor:"+short(spec), err.Error())
		return nil
	}
	return f
}

func short(spec string) string { return strings.TrimPrefix(spec, "github.com/bloxapp/") }

// ensures: every exit of fnSpec matching exitSpec carries every required fact.
func ensures(c *core.Ctx, rule, fnSpec, exitSpec string, reqs []Req) {
	f := fn(c, rule, fnSpec)
	if f == nil {
		return
	}
	ensuresFn(c, rule, f, fnSpec, exitSpec, reqs)
}

// ensuresFn is ensures for an already resolved function (fnSpec is only the
// name used in the obligation keys).
func ensuresFn(c *core.Ctx, rule string, f *ssa.Function, fnSpec, exitSpec string, reqs []Req) {
	a := c.E.Analyze(f)
	exits, err := a.Exits(exitSpec)
	if err != nil {
		c.Undischarged(rule, short(fnSpec)+"|exits", err.Error())
		return
	}
	c.Count("functions", 1)
	c.Count("exits", len(exits))
	if len(exits) == 0 {
		c.Undischarged(rule, short(fnSpec)+"|exits("+exitSpec+")", "no exit of the requested class found: the function's shape is no longer the one the rule was written for")
		return
	}
	for _, r := range reqs {
		construct := short(fnSpec) + "|" + exitSpec + "|" + r.Name
		var missing []string
		witness := ""
		for _, ex := range exits {
			if k, ok := ex.Facts.Has(r.Pat); ok {
				witness = k
			} else {
				where := c.P.Pos(ex.Ret.Pos())
				if ex.Pred != nil {
					where += fmt.Sprintf(" (via block %d)", ex.Pred.Index)
				}
				missing = append(missing, where)
			}
		}
		if len(missing) == 0 {
			c.OK(rule, construct, c.P.Pos(f.Pos()), fmt.Sprintf("on all %d exits: %s", len(exits), clip(witness)))
		} else {
			c.Fail(rule, construct, c.P.Pos(f.Pos()), fmt.Sprintf("exit(s) %s can be reached without fact %q (%s) — %s", strings.Join(missing, ", "), r.Pat, r.Name, r.Why))
		}
	}
}

func clip(s string) string {
	if len(s) > 220 {
		return s[:220] + "…"
	}
	return s
}

// funcsWithAnon returns f and all functions nested in it.
func funcsWithAnon(f *ssa.Function) []*ssa.Function {
	out := []*ssa.Function{f}
	for _, a := range f.AnonFuncs {
		out = append(out, funcsWithAnon(a)...)
	}
	return out
}

// callLabel renders the callee of a call instruction the way fact keys do.
func callLabel(cc *ssa.CallCommon) string {
	if cc.IsInvoke() {
		return ens.FuncName(cc.Method)
	}
	switch f := cc.Value.(type) {
	case *ssa.Function:
		return ens.SSAFuncName(f)
	case *ssa.Builtin:
		return f.Name()
	case *ssa.MakeClosure:
		if fn, ok := f.Fn.(*ssa.Function); ok {
			return ens.SSAFuncName(fn)
		}
	}
	return "dyn"
}

// CallsIn is exported for the dump tool.
func CallsIn(f *ssa.Function, glob string) []callSite { return callsIn(f, glob) }

type callSite struct {
	Fn    *ssa.Function
	Instr ssa.CallInstruction
	Label string
	// Via: the chain of same-package helper calls leading from the function the
	// search started in to Fn (empty when the call is written in that function
	// or one of its closures). Rules see through helpers: extracting a few lines
	// into an unexported function must not hide a call site from its rule.
	Via []viaStep
}

type viaStep struct {
	Site ssa.CallInstruction
	In   *ssa.Function
}

// Facts: the must-hold facts before the call, in the terms of the function
// the search started in: the facts before the site itself, rebound through
// each helper call's arguments, joined with the facts before that helper call.
func (s callSite) Facts(c *core.Ctx) ens.FactSet {
	fs := c.E.Analyze(s.Fn).FactsAt(s.Instr)
	if fs == nil || len(s.Via) == 0 {
		return fs
	}
	fs = fs.Clone()
	for i := len(s.Via) - 1; i >= 0; i-- {
		st := s.Via[i]
		ca := c.E.Analyze(st.In)
		var args []*ens.Node
		for _, a := range st.Site.Common().Args {
			args = append(args, ca.D.D(a))
		}
		out := ens.FactSet{}
		for _, f := range fs {
			out.Add(f.Subst(args, ""))
		}
		outer := ca.FactsAt(st.Site)
		if outer == nil {
			return nil
		}
		for _, f := range outer {
			out.Add(f)
		}
		fs = out
	}
	return fs
}

// Node: the call (or one operand of it) in the terms of the starting function.
func (s callSite) rebind(c *core.Ctx, n *ens.Node) *ens.Node {
	for i := len(s.Via) - 1; i >= 0; i-- {
		st := s.Via[i]
		ca := c.E.Analyze(st.In)
		var args []*ens.Node
		for _, a := range st.Site.Common().Args {
			args = append(args, ca.D.D(a))
		}
		n = n.Subst(args)
	}
	return n
}

// Arg: the i-th operand of the call in the terms of the starting function.
func (s callSite) Arg(c *core.Ctx, i int) *ens.Node {
	return s.rebind(c, c.E.Analyze(s.Fn).D.D(s.Instr.Common().Args[i]))
}

// Call: the whole call node in the terms of the starting function.
func (s callSite) Call(c *core.Ctx) *ens.Node {
	return s.rebind(c, c.E.Analyze(s.Fn).D.Call(s.Instr))
}

func (s callSite) viaText() string {
	if len(s.Via) == 0 {
		return ""
	}
	var names []string
	for _, v := range s.Via {
		names = append(names, callLabel(v.Site.Common()))
	}
	return " (via " + strings.Join(names, " → ") + ")"
}

// callsIn lists the call sites in f (and nested closures) whose callee label
// matches the glob, looking through same-package helper functions (depth ≤ 2).
func callsIn(f *ssa.Function, glob string) []callSite {
	return callsDeep(f, func(ci ssa.CallInstruction, l string) bool { return ens.Glob(glob, l) }, nil, map[*ssa.Function]bool{f: true}, 0)
}

// callsWhere is callsIn with an arbitrary predicate on the call instruction.
func callsWhere(f *ssa.Function, pred func(ci ssa.CallInstruction, label string) bool) []callSite {
	return callsDeep(f, pred, nil, map[*ssa.Function]bool{f: true}, 0)
}

// storeSite: a store found in a function or, through private helpers, below it.
type storeSite struct {
	Fn    *ssa.Function
	Store *ssa.Store
	Via   []viaStep
}

func (s storeSite) base() callSite { return callSite{Fn: s.Fn, Via: s.Via} }

// Facts before the store, in the terms of the function the search started in.
func (s storeSite) Facts(c *core.Ctx) ens.FactSet {
	fs := c.E.Analyze(s.Fn).FactsAt(s.Store)
	if fs == nil || len(s.Via) == 0 {
		return fs
	}
	// reuse the call-site machinery: rebind through the helper chain
	cs := s.base()
	out := fs.Clone()
	for i := len(cs.Via) - 1; i >= 0; i-- {
		st := cs.Via[i]
		ca := c.E.Analyze(st.In)
		var args []*ens.Node
		for _, a := range st.Site.Common().Args {
			args = append(args, ca.D.D(a))
		}
		nx := ens.FactSet{}
		for _, f := range out {
			nx.Add(f.Subst(args, ""))
		}
		outer := ca.FactsAt(st.Site)
		if outer == nil {
			return nil
		}
		for _, f := range outer {
			nx.Add(f)
		}
		out = nx
	}
	return out
}

func (s storeSite) Val(c *core.Ctx) *ens.Node {
	return s.base().rebind(c, c.E.Analyze(s.Fn).D.D(s.Store.Val))
}

func (s storeSite) Addr(c *core.Ctx) *ens.Node {
	return s.base().rebind(c, c.E.Analyze(s.Fn).D.D(s.Store.Addr))
}

// storesWhere lists the stores matching pred in f, its closures and (depth ≤ 2)
// the private same-package helpers it calls.
func storesWhere(f *ssa.Function, pred func(*ssa.Store) bool) []storeSite {
	var out []storeSite
	var rec func(g *ssa.Function, via []viaStep, depth int, seen map[*ssa.Function]bool)
	rec = func(g0 *ssa.Function, via []viaStep, depth int, seen map[*ssa.Function]bool) {
		for _, g := range funcsWithAnon(g0) {
			for _, b := range g.Blocks {
				for _, in := range b.Instrs {
					if st, ok := in.(*ssa.Store); ok && pred(st) {
						out = append(out, storeSite{g, st, via})
						continue
					}
					cv, ok := in.(*ssa.Call)
					if !ok || depth >= 2 {
						continue
					}
					h := cv.Call.StaticCallee()
					if h == nil || len(h.Blocks) == 0 || h.Pkg == nil || h.Pkg != topFunc(f).Pkg || seen[h] || h.Parent() != nil {
						continue
					}
					if obj := h.Object(); obj != nil && obj.Exported() {
						continue
					}
					if _, stop := noDescend[ens.SSAFuncName(h)]; stop {
						continue
					}
					seen[h] = true
					rec(h, append(append([]viaStep{}, via...), viaStep{cv, g}), depth+1, seen)
					delete(seen, h)
				}
			}
		}
	}
	rec(f, nil, 0, map[*ssa.Function]bool{f: true})
	return out
}

// noDescend: helpers that are anchors of rules of their own; a search started
// in their caller does not look inside them (their sites have their own
// obligations, with their own required facts).
var noDescend = map[string]string{
	"ssv/protocol/v2/ssv/runner.BaseRunner.resolveDuplicateSignature": "C05-R3 new-sig-verified is the rule for its AddSignature site",
	"ssv/protocol/v2/ssv/queue.priorityQueue.pop":                     "C14-R1 unlink discipline is the rule for its list stores",
}

func callsDeep(f *ssa.Function, match func(ci ssa.CallInstruction, label string) bool, via []viaStep, seen map[*ssa.Function]bool, depth int) []callSite {
	var out []callSite
	for _, g := range funcsWithAnon(f) {
		for _, b := range g.Blocks {
			for _, in := range b.Instrs {
				ci, ok := in.(ssa.CallInstruction)
				if !ok {
					continue
				}
				l := callLabel(ci.Common())
				if match(ci, l) {
					out = append(out, callSite{Fn: g, Instr: ci, Label: l, Via: via})
					continue
				}
				if depth >= 2 {
					continue
				}
				if _, isCall := in.(*ssa.Call); !isCall {
					continue // go / defer of a helper: different moment, not "the same place"
				}
				h := ci.Common().StaticCallee()
				if h == nil || len(h.Blocks) == 0 || h.Pkg == nil || g.Pkg == nil && f.Pkg == nil || seen[h] || h.Parent() != nil {
					continue
				}
				if h.Pkg != topFunc(f).Pkg {
					continue
				}
				if _, stop := noDescend[ens.SSAFuncName(h)]; stop {
					continue
				}
				if obj := h.Object(); obj != nil && obj.Exported() {
					continue // exported API of the package is a boundary the rules name explicitly
				}
				seen[h] = true
				nv := append(append([]viaStep{}, via...), viaStep{ci, g})
				out = append(out, callsDeep(h, match, nv, seen, depth+1)...)
				delete(seen, h)
			}
		}
	}
	return out
}

// atCalls: every call in fnSpec whose callee matches calleeGlob is preceded,
// on every path, by the required facts. Returns the number of sites.
func atCalls(c *core.Ctx, rule, fnSpec, calleeGlob string, reqs []Req) int {
	f := fn(c, rule, fnSpec)
	if f == nil {
		return 0
	}
	sites := callsIn(f, calleeGlob)
	c.Count("call_sites", len(sites))
	byLabel := map[string]int{}
	for _, s := range sites {
		facts := s.Facts(c)
		byLabel[s.Label]++
		inst := fmt.Sprintf("%s#%d", s.Label, byLabel[s.Label])
		for _, r := range reqs {
			construct := short(fnSpec) + "|call " + inst + "|" + r.Name
			if facts == nil {
				c.OK(rule, construct, c.P.Pos(s.Instr.Pos()), "call site unreachable")
				continue
			}
			if k, ok := facts.Has(r.Pat); ok {
				c.OK(rule, construct, c.P.Pos(s.Instr.Pos()), clip(k))
			} else {
				c.Fail(rule, construct, c.P.Pos(s.Instr.Pos()), fmt.Sprintf("call of %s in %s%s is reachable without fact %q (%s) — %s", s.Label, ens.SSAFuncName(s.Fn), s.viaText(), r.Pat, r.Name, r.Why))
			}
		}
	}
	return len(sites)
}

// storesTo lists the stores in f (and nested closures) whose address is the
// given field.
func storesTo(f *ssa.Function, field *types.Var) []*ssa.Store {
	var out []*ssa.Store
	for _, g := range funcsWithAnon(f) {
		for _, b := range g.Blocks {
			for _, in := range b.Instrs {
				st, ok := in.(*ssa.Store)
				if !ok {
					continue
				}
				if fa, ok := st.Addr.(*ssa.FieldAddr); ok && fieldVar(fa) == field {
					out = append(out, st)
				}
			}
		}
	}
	return out
}

func fieldVar(fa *ssa.FieldAddr) *types.Var {
	t := fa.X.Type()
	if p, ok := t.Underlying().(*types.Pointer); ok {
		t = p.Elem()
	}
	if st, ok := t.Underlying().(*types.Struct); ok && fa.Field < st.NumFields() {
		return st.Field(fa.Field)
	}
	return nil
}

// atStores: every store to field in fnSpec is preceded by the required facts.
func atStores(c *core.Ctx, rule, fnSpec, fieldSpec string, reqs []Req) int {
	f := fn(c, rule, fnSpec)
	if f == nil {
		return 0
	}
	fv, err := c.P.LookupField(fieldSpec)
	if err != nil {
		c.Undischarged(rule, "anchor:"+short(fieldSpec), err.Error())
		return 0
	}
	sts := storesTo(f, fv)
	c.Count("store_sites", len(sts))
	for i, st := range sts {
		a := c.E.Analyze(st.Parent())
		facts := a.FactsAt(st)
		for _, r := range reqs {
			construct := fmt.Sprintf("%s|store %s#%d|%s", short(fnSpec), fv.Name(), i+1, r.Name)
			if facts == nil {
				c.OK(rule, construct, c.P.Pos(st.Pos()), "store unreachable")
				continue
			}
			if k, ok := facts.Has(r.Pat); ok {
				c.OK(rule, construct, c.P.Pos(st.Pos()), clip(k))
			} else {
				c.Fail(rule, construct, c.P.Pos(st.Pos()), fmt.Sprintf("write of %s in %s is reachable without fact %q (%s) — %s", fv.Name(), ens.SSAFuncName(st.Parent()), r.Pat, r.Name, r.Why))
			}
		}
	}
	return len(sts)
}

// nodeFuncs returns every function (with body, incl. closures) of the node
// packages loaded as roots.
func nodeFuncs(c *core.Ctx) []*ssa.Function {
	var out []*ssa.Function
	for _, pk := range c.P.NodePkgs {
		out = append(out, c.P.SourceFuncs(pk.PkgPath)...)
	}
	return out
}

// implementers returns the concrete methods (in loaded ssv/spec/ekm packages)
// that implement the interface method m.
func implementers(p *load.Program, m *types.Func) []*types.Func {
	sig, _ := m.Type().(*types.Signature)
	if sig == nil || sig.Recv() == nil {
		return nil
	}
	it, ok := sig.Recv().Type().Underlying().(*types.Interface)
	if !ok {
		return nil
	}
	var out []*types.Func
	for path, pk := range p.All {
		if !(load.IsSSV(path) || strings.HasPrefix(path, load.SpecModule) || strings.HasPrefix(path, load.EKMModule)) || pk.Types == nil {
			continue
		}
		sc := pk.Types.Scope()
		for _, name := range sc.Names() {
			tn, ok := sc.Lookup(name).(*types.TypeName)
			if !ok || tn.IsAlias() {
				continue
			}
			if _, isIface := tn.Type().Underlying().(*types.Interface); isIface {
				continue
			}
			for _, t := range []types.Type{tn.Type(), types.NewPointer(tn.Type())} {
				if types.Implements(t, it) {
					ms := types.NewMethodSet(t)
					if sel := ms.Lookup(m.Pkg(), m.Name()); sel != nil {
						if f, ok := sel.Obj().(*types.Func); ok {
							out = append(out, f)
						}
					}
					break
				}
			}
		}
	}
	return out
}

// callersOf finds, over all node packages, every call site whose callee is
// one of the targets: static calls by function identity, interface invokes
// by method name on an interface type that has the target's method (by
// types.Func identity, or by an interface that the target's receiver
// interface is assignable to).
type whoSite struct {
	Encl  *ssa.Function
	Instr ssa.CallInstruction
	Label string
}

func callersOf(c *core.Ctx, targets map[*types.Func]bool, ifaceMethodNames map[string]*types.Interface) []whoSite {
	var out []whoSite
	for _, f := range nodeFuncs(c) {
		c.Count("functions_scanned", 1)
		for _, b := range f.Blocks {
			for _, in := range b.Instrs {
				ci, ok := in.(ssa.CallInstruction)
				if !ok {
					continue
				}
				cc := ci.Common()
				c.Count("call_sites_scanned", 1)
				if cc.IsInvoke() {
					if targets[cc.Method] {
						out = append(out, whoSite{f, ci, callLabel(cc)})
						continue
					}
					if it, ok := ifaceMethodNames[cc.Method.Name()]; ok {
						// an invoke through a different interface type that shares the method and
						// could hold a value of the target interface
						if rt, ok := cc.Value.Type().Underlying().(*types.Interface); ok && (types.Implements(it, rt) || types.Implements(rt, it)) {
							out = append(out, whoSite{f, ci, callLabel(cc)})
						}
					}
					continue
				}
				if sf := cc.StaticCallee(); sf != nil {
					if o, ok := sf.Object().(*types.Func); ok && targets[o] {
						out = append(out, whoSite{f, ci, callLabel(cc)})
					}
				}
			}
		}
	}
	sort.Slice(out, func(i, j int) bool { return out[i].Instr.Pos() < out[j].Instr.Pos() })
	return out
}

// topFunc returns the outermost named function enclosing f.
func topFunc(f *ssa.Function) *ssa.Function {
	for f.Parent() != nil {
		f = f.Parent()
	}
	return f
}

// callerIndex: static callers (outermost enclosing functions) of every function of the node packages.
var callerIdx = map[*core.Ctx]map[*ssa.Function]map[*ssa.Function]bool{}

func callersIndex(c *core.Ctx) map[*ssa.Function]map[*ssa.Function]bool {
	if idx, ok := callerIdx[c]; ok {
		return idx
	}
	idx := map[*ssa.Function]map[*ssa.Function]bool{}
	for _, f := range nodeFuncs(c) {
		for _, b := range f.Blocks {
			for _, in := range b.Instrs {
				ci, ok := in.(ssa.CallInstruction)
				if !ok {
					continue
				}
				if h := ci.Common().StaticCallee(); h != nil {
					if idx[h] == nil {
						idx[h] = map[*ssa.Function]bool{}
					}
					idx[h][topFunc(f)] = true
				}
			}
		}
	}
	callerIdx[c] = idx
	return idx
}

// transparentHelper: f is an unexported function all of whose (static) callers
// are allow-listed — directly or through another such helper. Extracting lines
// of an allowed function into a private helper must not turn the helper into a
// forbidden caller / writer.
func transparentHelper(c *core.Ctx, f *ssa.Function, allow map[string]string, depth int) (string, bool) {
	if f == nil || depth > 2 {
		return "", false
	}
	if obj := f.Object(); obj == nil || obj.Exported() {
		return "", false
	}
	callers := callersIndex(c)[f]
	if len(callers) == 0 {
		return "", false
	}
	var names []string
	for g := range callers {
		n := ens.SSAFuncName(g)
		if _, ok := allow[n]; ok {
			names = append(names, n)
			continue
		}
		if via, ok := transparentHelper(c, g, allow, depth+1); ok {
			names = append(names, n+" ← "+via)
			continue
		}
		return "", false
	}
	sort.Strings(names)
	return strings.Join(names, ", "), true
}

// whoMayCall checks that the enclosing (outermost) functions of all call
// sites of the targets are exactly those in allow; returns the sites.
func whoMayCall(c *core.Ctx, rule, what string, targets map[*types.Func]bool, ifaceNames map[string]*types.Interface, allow map[string]string) []whoSite {
	sites := callersOf(c, targets, ifaceNames)
	seen := map[string]int{}
	for _, s := range sites {
		encl := ens.SSAFuncName(topFunc(s.Encl))
		seen[encl]++
		construct := fmt.Sprintf("%s|caller %s", what, encl)
		if why, ok := allow[encl]; ok {
			if seen[encl] == 1 {
				c.OK(rule, construct, c.P.Pos(s.Instr.Pos()), "allow-listed: "+why)
			}
		} else if via, ok := transparentHelper(c, topFunc(s.Encl), allow, 0); ok {
			if seen[encl] == 1 {
				c.OK(rule, construct, c.P.Pos(s.Instr.Pos()), "private helper called only from allow-listed functions: "+via)
			}
		} else {
			c.Fail(rule, construct, c.P.Pos(s.Instr.Pos()), fmt.Sprintf("%s is called from %s, which is not one of the functions allowed to reach it (%s)", s.Label, encl, strings.Join(keys(allow), ", ")))
		}
	}
	c.Count("who_may_call_sites", len(sites))
	return sites
}

func keys(m map[string]string) []string {
	var o []string
	for k := range m {
		o = append(o, k)
	}
	sort.Strings(o)
	return o
}

// methodTargets resolves an interface (or concrete) method spec to the set of
// functions whose call counts as calling it: the method itself plus, for
// interface methods, every implementer in the analysed modules.
func methodTargets(c *core.Ctx, rule, spec string) (map[*types.Func]bool, map[string]*types.Interface) {
	m, err := c.P.LookupFunc(spec)
	if err != nil {
		c.Undischarged(rule, "anchor:"+short(spec), err.Error())
		return nil, nil
	}
	t := map[*types.Func]bool{m: true}
	names := map[string]*types.Interface{}
	if sig, ok := m.Type().(*types.Signature); ok && sig.Recv() != nil {
		if it, ok := sig.Recv().Type().Underlying().(*types.Interface); ok {
			names[m.Name()] = it
			for _, im := range implementers(c.P, m) {
				t[im] = true
			}
		}
	}
	return t, names
}

// writersOf lists all stores (in node packages) to the given field.
type writeSite struct {
	Encl  *ssa.Function
	Instr ssa.Instruction
}

func writersOf(c *core.Ctx, field *types.Var) []writeSite {
	var out []writeSite
	for _, f := range nodeFuncs(c) {
		for _, b := range f.Blocks {
			for _, in := range b.Instrs {
				if st, ok := in.(*ssa.Store); ok {
					if fa, ok := st.Addr.(*ssa.FieldAddr); ok && fieldVar(fa) == field {
						out = append(out, writeSite{f, st})
					}
				}
			}
		}
	}
	return out
}

// whoMayWrite checks the enclosing functions of all stores to a field.
// Composite-literal initialisations (stores into a fresh allocation in the
// allocating block) are construction, not mutation, and are reported under
// the pseudo-writer "<literal>".
func whoMayWrite(c *core.Ctx, rule, fieldSpec string, allow map[string]string) []writeSite {
	fv, err := c.P.LookupField(fieldSpec)
	if err != nil {
		c.Undischarged(rule, "anchor:"+short(fieldSpec), err.Error())
		return nil
	}
	sites := writersOf(c, fv)
	seen := map[string]bool{}
	var real []writeSite
	for _, s := range sites {
		st := s.Instr.(*ssa.Store)
		if fa, ok := st.Addr.(*ssa.FieldAddr); ok {
			if al, ok := fa.X.(*ssa.Alloc); ok && al.Block() == st.Block() && (al.Comment == "complit" || al.Comment == "new") {
				continue // construction of a fresh value
			}
		}
		real = append(real, s)
		encl := ens.SSAFuncName(topFunc(s.Encl))
		construct := fmt.Sprintf("%s|writer %s", short(fieldSpec), encl)
		if why, ok := allow[encl]; ok {
			if !seen[encl] {
				c.OK(rule, construct, c.P.Pos(s.Instr.Pos()), "allow-listed: "+why)
			}
		} else if via, ok := transparentHelper(c, topFunc(s.Encl), allow, 0); ok {
			if !seen[encl] {
				c.OK(rule, construct, c.P.Pos(s.Instr.Pos()), "private helper called only from allowed writers: "+via)
			}
		} else {
			c.Fail(rule, construct, c.P.Pos(s.Instr.Pos()), fmt.Sprintf("field %s is written in %s, which is not an allowed writer (%s)", fv.Name(), encl, strings.Join(keys(allow), ", ")))
		}
		seen[encl] = true
	}
	c.Count("write_sites", len(real))
	return real
}

// ensuresIf: on every exit matching exitSpec whose facts match cond, the
// required facts hold. Returns the number of exits the condition selected.
func ensuresIf(c *core.Ctx, rule, fnSpec, exitSpec, condName, cond string, reqs []Req) int {
	f := fn(c, rule, fnSpec)
	if f == nil {
		return 0
	}
	a := c.E.Analyze(f)
	exits, err := a.Exits(exitSpec)
	if err != nil {
		c.Undischarged(rule, short(fnSpec)+"|exits", err.Error())
		return 0
	}
	n := 0
	for _, r := range reqs {
		construct := short(fnSpec) + "|" + exitSpec + " when " + condName + "|" + r.Name
		var missing []string
		witness := ""
		n = 0
		for _, ex := range exits {
			if _, ok := ex.Facts.Has(cond); !ok {
				continue
			}
			n++
			if k, ok := ex.Facts.Has(r.Pat); ok {
				witness = k
			} else {
				missing = append(missing, c.P.Pos(ex.Ret.Pos()))
			}
		}
		if n == 0 {
			c.Undischarged(rule, construct, "no exit satisfies the condition "+cond+": the path the rule is about no longer exists in this shape")
			continue
		}
		if len(missing) == 0 {
			c.OK(rule, construct, c.P.Pos(f.Pos()), fmt.Sprintf("on all %d such exits: %s", n, clip(witness)))
		} else {
			c.Fail(rule, construct, c.P.Pos(f.Pos()), fmt.Sprintf("exit(s) %s (%s) lack fact %q (%s) — %s", strings.Join(missing, ", "), condName, r.Pat, r.Name, r.Why))
		}
	}
	return n
}

// ifaceMethods returns the methods of the named interface (including
// embedded ones) whose name matches the glob.
func ifaceMethods(c *core.Ctx, rule, ifaceSpec, glob string) []*types.Func {
	tn, err := c.P.LookupType(ifaceSpec)
	if err != nil {
		c.Undischarged(rule, "anchor:"+short(ifaceSpec), err.Error())
		return nil
	}
	it, ok := tn.Type().Underlying().(*types.Interface)
	if !ok {
		c.Undischarged(rule, "anchor:"+short(ifaceSpec), "not an interface")
		return nil
	}
	var out []*types.Func
	for i := 0; i < it.NumMethods(); i++ {
		if ens.Glob(glob, it.Method(i).Name()) {
			out = append(out, it.Method(i))
		}
	}
	return out
}

func mapOf(f *types.Func) map[*types.Func]bool { return map[*types.Func]bool{f: true} }

func enclName(f *ssa.Function) string { return ens.SSAFuncName(topFunc(f)) }

func fileOf(files []*ast.File, pos token.Pos) *ast.File {
	for _, f := range files {
		if f.Pos() <= pos && pos <= f.End() {
			return f
		}
	}
	return nil
}
