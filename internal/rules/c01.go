package rules

import (
	"fmt"
	"go/ast"
	"go/constant"
	"go/types"
	"golang.org/x/tools/go/ssa"
	"strings"

	"verif/ssvcheck/internal/core"
	"verif/ssvcheck/internal/ens"
)

const instPkg = ssv + "protocol/v2/qbft/instance"
const ctrlPkg = ssv + "protocol/v2/qbft/controller"

const iN = "ssv/protocol/v2/qbft/instance."
const vbo = "ssv/protocol/v2/types.VerifyByOperators("
const sigArgs = ", ssv/protocol/v2/qbft.signing.GetSignatureDomainType(%s), global:ssv-spec/types.QBFTSignatureType, %s))"

func verifyBy(msg, cfg, committee string) string {
	return "ok(" + vbo + msg + ".Signature, " + msg + fmt.Sprintf(sigArgs, cfg, committee)
}

func qbftSetup(e *ens.Engine) {
	e.TrueSwitch["ssv/protocol/v2/qbft.IConfig.VerifySignatures"] = true
	e.TrueSwitchPkgs["github.com/bloxapp/ssv/protocol/v2/qbft/instance"] = true
	e.Derived = append(e.Derived, ens.Derived{
		Func: iN + "isValidProposal", Name: "state-clause",
		Alts: [][]string{
			{"isnil(p0.ProposalAcceptedForCurrentRound)", "eq(p0.Round, p2.Message.Round)"},
			{"lt(p0.Round, p2.Message.Round)"},
		},
	}, ens.Derived{
		Func: iN + "isProposalJustificationForLeadingRound", Name: "state-clause",
		Alts: [][]string{
			{"isnil(p0.ProposalAcceptedForCurrentRound)", "eq(p0.Round, p7)"},
			{"lt(p0.Round, p7)"},
		},
	})
}

func init() {
	register(&Check{
		Prop:  "C01",
		Pkgs:  []string{"./..."},
		Setup: qbftSetup,
		Explain: "Agreement over all interleavings with ≤ f Byzantine members is a theorem about executions and is NOT decided. Decided: the node's instance keeps, on every path, each guard the QBFT safety argument rests on. " +
			"(R1) State.Decided/DecidedValue are written in Instance.ProcessMsg only under UponCommit's decided==true, which holds only under Share.HasQuorum(len(LongestUniqueSignersForRoundAndRoot(msg.Round, msg.Root))) of that very message's round and root; " +
			"(R2) per message type, BaseMsgValidation's accept exit implies the type's validator with the instance's own height/round/committee, and each validator's accept exit implies its guard set (type, height, round, single signer, SignedMessage.Validate, BLS VerifyByOperators against the committee, leader == proposer(state, msg.Round), H(FullData)==Root, justification, state clause); " +
			"(R3) isProposalJustification for round>1: every round-change valid *for the proposal's round*, quorum of round-changes, and when previously prepared: prepare quorum, highest prepared non-nil, H(fullData)==highest.Root, every prepare valid for (highest.DataRound, highest.Root); " +
			"(R4) uponPrepare writes LastPrepared* and creates/broadcasts the commit only under a fresh prepare quorum for State.Round (¬hasQuorumBefore); upon* handlers are dispatched only under ok(BaseMsgValidation) and the matching type; " +
			"(R5) containers are filled only via AddFirstMsgForSignerAndRound (AddMsg only in UponDecided after ValidateDecided); protocol state fields have an allow-listed writer set; " +
			"(R6) production configs set SignatureVerification:true and ProposerF=RoundRobinProposer; quorum arithmetic is (2⌊(n−1)/3⌋+1, ⌊(n−1)/3⌋+1). " +
			"The premise that these guards imply agreement is the safety proof of QBFT / the reference ssv-spec (trusted; C06 ties the node to the reference).",
		Rules: []string{
			"C01-R1 facts-before(store State.Decided / DecidedValue in ProcessMsg) ∋ decided(UponCommit); Ens(UponCommit|decided) ∋ quorum over (msg.Round, msg.Root)",
			"C01-R2 Ens(validator|accept) ⊇ guard table (per message type); Ens(VerifyByOperators|accept) ⊇ {every signer found in the committee, aggregate check}",
			"C01-R3 Ens(isProposalJustification|accept ∧ round≠1) ⊇ justification table",
			"C01-R4 facts-before(effects of uponPrepare) ⊇ {fresh prepare quorum}; dispatch under ok(BaseMsgValidation)",
			"C01-R5 who-may-call(AddMsg/AddFirst…) and who-may-write(State.*) allow-lists",
			"C01-R6 config literals, proposer wiring, quorum normal form; every write of Share.Quorum / PartialQuorum = that normal form over len(own committee)",
		},
		Trusted: []string{"QBFT safety argument / ssv-spec reference algorithm (guards ⇒ agreement)", "herumi BLS", "go/types + go/ssa", "hand-confirmed guard tables (internal/rules/c01.go)"},
		Assume:  []string{"config.VerifySignatures() is true in production (checked by R6 on the config literals) and is treated as true inside the instance package", "no kill set: a checked field is assumed not to be rewritten between check and use inside one handler (state writers are allow-listed by R5)"},
		Run:     runC01,
	})
}

func runC01(c *core.Ctx) {
	inst := instPkg + ".(*Instance)."
	// ---------------- R1
	closure := iN + "Instance.ProcessMsg$1"
	n := 0
	for _, fld := range []string{"Decided", "DecidedValue"} {
		n += atStores(c, "C01-R1", inst+"ProcessMsg", spec+"qbft.State."+fld, []Req{
			{"commit-quorum-decided", "T(" + iN + "Instance.UponCommit(p0, p1, p2, p0.State.CommitContainer)#0)", "the decision flag/value may be set only when UponCommit reports a quorum"},
			{"commit-type", "eq(2:MessageType, p2.Message.MsgType)", "only commit messages can decide"},
			{"validated", "ok(" + iN + "Instance.BaseMsgValidation(p0, p2))", "only validated messages are processed"},
		})
	}
	_ = closure
	c.Min("C01-R1", n, 2, "decision writes in Instance.ProcessMsg")
	ensures(c, "C01-R1", inst+"UponCommit", "r0=true", []Req{
		{"first-from-signer", "T(ssv-spec/qbft.MsgContainer.AddFirstMsgForSignerAndRound(p3, p2)#0)", "a repeated commit of one signer must not be counted again"},
		{"quorum-for-msg-round-root", "T(" + iN + "commitQuorumForRoundRoot(p0.State, p3, p2.Message.Root, p2.Message.Round)#0)", "quorum must be counted for this message's own round and root"},
		{"quorum-is-share-quorum", "T(ssv-spec/types.Share.HasQuorum(p0.State.Share, len(ssv-spec/qbft.MsgContainer.LongestUniqueSignersForRoundAndRoot(p3, p2.Message.Round, p2.Message.Root)#0)))", "the count must be unique signers for (round, root) against the 2f+1 threshold"},
		{"threshold", "le(p0.State.Share.Quorum, uint64(len(ssv-spec/qbft.MsgContainer.LongestUniqueSignersForRoundAndRoot(p3, p2.Message.Round, p2.Message.Root)#0)))", "HasQuorum must compare against Share.Quorum (not PartialQuorum)"},
		{"aggregate-of-those-msgs", "ok(" + iN + "aggregateCommitMsgs(" + iN + "commitQuorumForRoundRoot(p0.State, p3, p2.Message.Root, p2.Message.Round)#1, p0.State.ProposalAcceptedForCurrentRound.FullData))", "the certificate must aggregate exactly the counted commits with the accepted proposal's data"},
	})

	// ---------------- R2: per-type dispatch in BaseMsgValidation
	bmv := inst + "BaseMsgValidation"
	common := []Req{
		{"well-formed", "ok(ssv-spec/qbft.SignedMessage.Validate(p1))", "malformed signer lists (duplicates, zero) must be refused"},
		{"not-past-round", "le(p0.State.Round, p1.Message.Round)", "past-round messages must be refused"},
	}
	ensures(c, "C01-R2", bmv, "err=nil", common)
	ensuresIf(c, "C01-R2", bmv, "err=nil", "proposal", "eq(0:MessageType, p1.Message.MsgType)", []Req{
		{"isValidProposal", "ok(" + iN + "isValidProposal(p0.State, p0.config, p1, ssv/protocol/v2/qbft.IConfig.GetValueCheckF(p0.config), p0.State.Share.Committee))", "proposals must pass isValidProposal with the instance's state, value check and committee"},
	})
	ensuresIf(c, "C01-R2", bmv, "err=nil", "prepare", "eq(1:MessageType, p1.Message.MsgType)", []Req{
		{"proposal-accepted", "nonnil(p0.State.ProposalAcceptedForCurrentRound)", "prepares without accepted proposal must be refused"},
		{"validPrepare", "ok(" + iN + "validSignedPrepareForHeightRoundAndRoot(p0.config, p1, p0.State.Height, p0.State.Round, p0.State.ProposalAcceptedForCurrentRound.Message.Root, p0.State.Share.Committee))", "prepares must match the instance's height, current round and the accepted proposal's root"},
	})
	ensuresIf(c, "C01-R2", bmv, "err=nil", "commit", "eq(2:MessageType, p1.Message.MsgType)", []Req{
		{"proposal-accepted", "nonnil(p0.State.ProposalAcceptedForCurrentRound)", "commits without accepted proposal must be refused"},
		{"validateCommit", "ok(" + iN + "validateCommit(p0.config, p1, p0.State.Height, p0.State.Round, p0.State.ProposalAcceptedForCurrentRound, p0.State.Share.Committee))", "commits must match height, current round and the accepted proposal"},
	})
	ensuresIf(c, "C01-R2", bmv, "err=nil", "round-change", "eq(3:MessageType, p1.Message.MsgType)", []Req{
		{"validRoundChange", "ok(" + iN + "validRoundChangeForData(p0.State, p0.config, p1, p0.State.Height, p1.Message.Round, p1.FullData))", "round changes must be validated against the instance's height and their own round/data"},
	})
	// the validators
	ensures(c, "C01-R2", instPkg+".isValidProposal", "err=nil", []Req{
		{"type", "eq(0:MessageType, p2.Message.MsgType)", ""},
		{"height", "eq(p0.Height, p2.Message.Height)", "wrong-height proposals must be refused"},
		{"single-signer", "eq(1, len(p2.Signers))", "proposals carry exactly one signer"},
		{"signature", verifyBy("p2", "p1", "p4"), "the proposal signature must verify against the committee"},
		{"leader", "T(ssv-spec/qbft.SignedMessage.MatchedSigners(p2, new:[1]ssv-spec/types.OperatorID{0: " + iN + "proposer(p0, p1, p2.Message.Round)}[:]))", "the signer must be the leader of the PROPOSAL's round"},
		{"well-formed", "ok(ssv-spec/qbft.SignedMessage.Validate(p2))", ""},
		{"data-matches-root", "T(bytes.Equal(p2.Message.Root[:], ssv-spec/qbft.HashDataRoot(p2.FullData)#0[:]))", "H(FullData) must equal the signed root"},
		{"justified", "ok(" + iN + "isProposalJustification(p0, p1, ssv-spec/qbft.Message.GetRoundChangeJustifications(p2.Message)#0, ssv-spec/qbft.Message.GetPrepareJustifications(p2.Message)#0, p0.Height, p2.Message.Round, p2.FullData, p3))", "the proposal must be justified for its own round, with the value check"},
		{"state-clause", "or(state-clause)", "a proposal is acceptable only as the first of the current round or for a future round"},
	})
	ensures(c, "C01-R2", instPkg+".validSignedPrepareForHeightRoundAndRoot", "err=nil", []Req{
		{"type", "eq(1:MessageType, p1.Message.MsgType)", ""},
		{"height", "eq(p1.Message.Height, p2)", ""},
		{"round", "eq(p1.Message.Round, p3)", "prepares of another round must not count"},
		{"well-formed", "ok(ssv-spec/qbft.SignedMessage.Validate(p1))", ""},
		{"root", "T(bytes.Equal(p1.Message.Root[:], p4[:]))", "prepares for another value must not count"},
		{"single-signer", "eq(1, len(p1.Signers))", ""},
		{"signature", verifyBy("p1", "p0", "p5"), ""},
	})
	ensures(c, "C01-R2", instPkg+".BaseCommitValidation", "err=nil", []Req{
		{"type", "eq(2:MessageType, p1.Message.MsgType)", ""},
		{"height", "eq(p1.Message.Height, p2)", ""},
		{"well-formed", "ok(ssv-spec/qbft.SignedMessage.Validate(p1))", ""},
		{"signature", verifyBy("p1", "p0", "p3"), ""},
	})
	ensures(c, "C01-R2", instPkg+".validateCommit", "err=nil", []Req{
		{"base", "ok(" + iN + "BaseCommitValidation(p0, p1, p2, p5))", ""},
		{"single-signer", "eq(1, len(p1.Signers))", ""},
		{"round", "eq(p1.Message.Round, p3)", "commits of another round must not count toward this round"},
		{"root-of-accepted-proposal", "T(bytes.Equal(p4.Message.Root[:], p1.Message.Root[:]))", "commits for another value must not count"},
	})
	rc := instPkg + ".validRoundChangeForData"
	ensures(c, "C01-R2", rc, "err=nil", []Req{
		{"type", "eq(3:MessageType, p2.Message.MsgType)", ""},
		{"height", "eq(p2.Message.Height, p3)", ""},
		{"round", "eq(p2.Message.Round, p4)", "a round change for another round must not justify this round"},
		{"single-signer", "eq(1, len(p2.Signers))", ""},
		{"signature", verifyBy("p2", "p1", "p0.Share.Committee"), ""},
		{"well-formed", "ok(ssv-spec/qbft.Message.Validate(p2.Message))", ""},
	})
	gj := "ssv-spec/qbft.Message.GetRoundChangeJustifications(p2.Message)#0"
	ensuresIf(c, "C01-R2", rc, "err=nil", "prepared", "T(ssv-spec/qbft.Message.RoundChangePrepared(p2.Message))", []Req{
		{"justifications-valid", "forall(ok(" + iN + "validSignedPrepareForHeightRoundAndRoot(p1, " + gj + "[_], p0.Height, p2.Message.DataRound, p2.Message.Root, p0.Share.Committee)))", "each justification must be a valid prepare for (DataRound, Root)"},
		{"data-matches-root", "T(bytes.Equal(ssv-spec/qbft.HashDataRoot(p5)#0[:], p2.Message.Root[:]))", ""},
		{"justification-quorum", "T(ssv-spec/qbft.HasQuorum(p0.Share, " + gj + "))", "a prepared round change needs a prepare quorum"},
		{"prepared-round-not-later", "le(p2.Message.DataRound, p4)", "prepared round must not exceed the round"},
	})

	// the BLS helper behind every per-type validator: unknown signers refused
	checkVerifyByOperators(c, "C01-R2")

	// ---------------- R3
	ipj := instPkg + ".isProposalJustification"
	ensures(c, "C01-R3", ipj, "err=nil", []Req{
		{"value-check", "ok(dyn[p7](p6))", "the proposed value must pass the value check"},
	})
	ensuresIf(c, "C01-R3", ipj, "err=nil", "round>1", "ne(1:Round, p5)", []Req{
		{"round-changes-valid-for-proposal-round", "forall(ok(" + iN + "validRoundChangeForData(p0, p1, p2[_], p4, p5, p6)))", "every justifying round change must be valid for the PROPOSAL's height, round and data"},
		{"round-change-quorum", "T(ssv-spec/qbft.HasQuorum(p0.Share, p2))", "a later-round proposal needs a round-change quorum"},
	})
	// the "was any round change prepared?" predicate: a closure today; found by its role (called on the
	// round-change slice, returns bool or (bool, error)) so that turning it into a named helper keeps the rule
	prepPred, prepCall := "", (*ssa.Function)(nil)
	if f := fn(c, "C01-R3", ipj); f != nil {
		a := c.E.Analyze(f)
		for _, b := range f.Blocks {
			for _, in := range b.Instrs {
				cv, ok := in.(*ssa.Call)
				if !ok || cv.Call.IsInvoke() {
					continue
				}
				callee := cv.Call.StaticCallee()
				if callee == nil || len(callee.Blocks) == 0 || callee.Pkg != f.Pkg {
					continue
				}
				res := callee.Signature.Results()
				isPred := res.Len() >= 1 && res.At(0).Type().String() == "bool" &&
					(res.Len() == 1 || (res.Len() == 2 && res.At(1).Type().String() == "error"))
				if !isPred || len(cv.Call.Args) != 1 {
					continue
				}
				if a.D.D(cv.Call.Args[0]).String() != "p2" {
					continue
				}
				prepPred, prepCall = a.D.D(cv).String(), callee
				if res.Len() == 2 {
					prepPred += "#0"
				}
			}
		}
	}
	if prepCall == nil {
		c.Undischarged("C01-R3", "isProposalJustification|previously-prepared predicate", "no call of a bool predicate on the round-change messages found")
		return
	}
	ensuresIf(c, "C01-R3", ipj, "err=nil", "previously prepared", "T("+prepPred+")", []Req{
		{"prepare-quorum", "T(ssv-spec/qbft.HasQuorum(p0.Share, p3))", "re-proposing a prepared value needs its prepare quorum"},
		{"highest-prepared", "nonnil(" + iN + "highestPrepared(p2)#0)", ""},
		{"value-is-highest-prepared", "T(bytes.Equal(ssv-spec/qbft.HashDataRoot(p6)#0[:], " + iN + "highestPrepared(p2)#0.Message.Root[:]))", "the proposal must re-propose the highest prepared value"},
		{"prepares-valid", "forall(ok(" + iN + "validSignedPrepareForHeightRoundAndRoot(p1, p3[_], p4, " + iN + "highestPrepared(p2)#0.Message.DataRound, " + iN + "highestPrepared(p2)#0.Message.Root, p0.Share.Committee)))", "each prepare must be for the highest prepared round and root"},
	})
	ensuresFn(c, "C01-R3", prepCall, instPkg+".isProposalJustification|prepared-predicate", "r0=false", []Req{
		{"none-prepared", "forall(F(ssv-spec/qbft.Message.RoundChangePrepared(p0[_].Message)))", "'not previously prepared' must mean no round change carries a prepared value"},
	})

	// ---------------- R4
	up := inst + "uponPrepare"
	fresh := []Req{
		{"quorum-now", "T(ssv-spec/qbft.HasQuorum(p0.State.Share, ssv-spec/qbft.MsgContainer.MessagesForRound@*(p3, p0.State.Round)))", "commit stage requires a prepare quorum for the current round"},
		{"no-quorum-before", "F(ssv-spec/qbft.HasQuorum(p0.State.Share, ssv-spec/qbft.MsgContainer.MessagesForRound*(p3, p0.State.Round)))", "the commit is sent once, on the first quorum"},
		{"first-from-signer", "T(ssv-spec/qbft.MsgContainer.AddFirstMsgForSignerAndRound(p3, p2)#0)", ""},
		{"prepared-round-recorded-first", "stored(p0.State.LastPreparedRound, p0.State.Round)", "the lock on the prepared value must be recorded BEFORE the commit can leave the node: if the broadcast fails half-way the operator has committed but would later report 'not prepared', and the next leader may propose another value"},
		{"prepared-value-recorded-first", "stored(p0.State.LastPreparedValue, p0.State.ProposalAcceptedForCurrentRound.FullData)", "the prepared value is the accepted proposal's data, recorded before the commit is created and sent"},
	}
	n = atCalls(c, "C01-R4", up, iN+"CreateCommit", fresh)
	n += atCalls(c, "C01-R4", up, iN+"Instance.Broadcast", fresh)
	n += atStores(c, "C01-R4", up, spec+"qbft.State.LastPreparedRound", fresh[:len(fresh)-2])
	n += atStores(c, "C01-R4", up, spec+"qbft.State.LastPreparedValue", fresh[:len(fresh)-2])
	c.Min("C01-R4", n, 4, "prepare-quorum effects in uponPrepare")
	for _, d := range []struct{ callee, typ string }{
		{"Instance.uponProposal", "0"}, {"Instance.uponPrepare", "1"}, {"Instance.UponCommit", "2"}, {"Instance.uponRoundChange", "3"},
	} {
		k := atCalls(c, "C01-R4", inst+"ProcessMsg", iN+d.callee, []Req{
			{"validated", "ok(" + iN + "Instance.BaseMsgValidation(p0, p2))", "handlers assume a valid message"},
			{"can-process", "T(" + iN + "Instance.CanProcessMessages(p0))", "a stopped instance must not process"},
			{"type", "eq(" + d.typ + ":MessageType, p2.Message.MsgType)", "handler must match the message type"},
		})
		c.Min("C01-R4", k, 1, "dispatch to "+d.callee)
	}

	// ---------------- R5
	if tg, _ := methodTargets(c, "C01-R5", spec+"qbft.MsgContainer.AddMsg"); tg != nil {
		sites := whoMayCall(c, "C01-R5", "MsgContainer.AddMsg", tg, nil, map[string]string{
			"ssv/protocol/v2/qbft/controller.Controller.UponDecided": "accepted decided certificates, after ValidateDecided",
		})
		c.Min("C01-R5", len(sites), 3, "AddMsg call sites")
	}
	if tg, _ := methodTargets(c, "C01-R5", spec+"qbft.MsgContainer.AddFirstMsgForSignerAndRound"); tg != nil {
		sites := whoMayCall(c, "C01-R5", "MsgContainer.AddFirstMsgForSignerAndRound", tg, nil, map[string]string{
			iN + "Instance.uponProposal":    "propose container",
			iN + "Instance.uponPrepare":     "prepare container",
			iN + "Instance.UponCommit":      "commit container",
			iN + "Instance.uponRoundChange": "round-change container",
		})
		c.Min("C01-R5", len(sites), 4, "AddFirstMsgForSignerAndRound call sites")
	}
	stateWriters := map[string]map[string]string{
		"Round": {
			iN + "Instance.bumpToRound":                              "the only round setter of the instance",
			"ssv/protocol/v2/qbft/controller.Controller.UponDecided": "adopts the round of a validated decided certificate",
		},
		"ProposalAcceptedForCurrentRound": {
			iN + "Instance.uponProposal":                 "accepts a validated proposal",
			iN + "Instance.uponChangeRoundPartialQuorum": "cleared on round bump",
			iN + "Instance.UponRoundTimeout":             "cleared on timeout",
		},
		"LastPreparedRound": {iN + "Instance.uponPrepare": "prepare quorum"},
		"LastPreparedValue": {iN + "Instance.uponPrepare": "prepare quorum"},
		"Decided": {
			iN + "Instance.ProcessMsg":                               "commit quorum",
			"ssv/protocol/v2/qbft/controller.Controller.UponDecided": "validated decided certificate",
		},
		"DecidedValue": {
			iN + "Instance.ProcessMsg":                               "commit quorum",
			"ssv/protocol/v2/qbft/controller.Controller.UponDecided": "validated decided certificate",
		},
		"Height": {iN + "Instance.Start": "set once at start"},
	}
	nw := 0
	for fld, allow := range stateWriters {
		nw += len(whoMayWrite(c, "C01-R5", spec+"qbft.State."+fld, allow))
	}
	c.Min("C01-R5", nw, 12, "writes of protocol state fields")
	bumps := map[string]string{
		iN + "Instance.Start":                        "first round",
		iN + "Instance.uponProposal":                 "round of the accepted (justified) proposal",
		iN + "Instance.uponChangeRoundPartialQuorum": "f+1 round changes",
		iN + "Instance.UponRoundTimeout":             "timeout",
	}
	if bf, err := c.P.LookupFunc(instPkg + ".(*Instance).bumpToRound"); err == nil {
		whoMayCall(c, "C01-R5", "Instance.bumpToRound", map[*types.Func]bool{bf: true}, nil, bumps)
	} else {
		c.Undischarged("C01-R5", "anchor:bumpToRound", err.Error())
	}

	// ---------------- R6
	checkConfigLiterals(c)
	quorumNormalForm(c)
}

// checkConfigLiterals: every composite literal of qbft.Config in node
// packages sets SignatureVerification to the constant true, and a literal
// that sets ProposerF sets it to a function that returns
// specqbft.RoundRobinProposer(state, round).
func checkConfigLiterals(c *core.Ctx) { checkConfigLiteralsRule(c, "C01-R6") }

func checkConfigLiteralsRule(c *core.Ctx, rule string) {
	checkQuorumStores(c, rule)
	cfgT, err := c.P.LookupType(ssv + "protocol/v2/qbft.Config")
	if err != nil {
		c.Undischarged(rule, "anchor:qbft.Config", err.Error())
		return
	}
	n, np := 0, 0
	for _, pk := range c.P.NodePkgs {
		for _, file := range pk.Syntax {
			ast.Inspect(file, func(nd ast.Node) bool {
				cl, ok := nd.(*ast.CompositeLit)
				if !ok {
					return true
				}
				tv, ok := pk.TypesInfo.Types[cl]
				if !ok || !types.Identical(tv.Type, cfgT.Type()) {
					return true
				}
				n++
				encl := enclosingFuncName(pk.TypesInfo, file, cl)
				sv := false
				for _, el := range cl.Elts {
					kv, ok := el.(*ast.KeyValueExpr)
					if !ok {
						continue
					}
					key, _ := kv.Key.(*ast.Ident)
					if key == nil {
						continue
					}
					switch key.Name {
					case "SignatureVerification":
						if v := pk.TypesInfo.Types[kv.Value].Value; v != nil && v.Kind() == constant.Bool && constant.BoolVal(v) {
							sv = true
						}
					case "ProposerF":
						np++
						ok := false
						if fl, isLit := kv.Value.(*ast.FuncLit); isLit {
							ok = returnsRoundRobin(pk.TypesInfo, fl)
						} else if id, isId := kv.Value.(*ast.SelectorExpr); isId {
							if f, _ := pk.TypesInfo.Uses[id.Sel].(*types.Func); f != nil && ens.FuncName(f) == "ssv-spec/qbft.RoundRobinProposer" {
								ok = true
							}
						}
						c.Decide(ok, rule, "qbft.Config literal in "+encl+"|ProposerF", c.P.Pos(kv.Pos()),
							"leader function is specqbft.RoundRobinProposer(state, round)", "the production leader function is not the round-robin proposer of the protocol (all operators must compute the same leader)")
					}
				}
				c.Decide(sv, rule, "qbft.Config literal in "+encl+"|SignatureVerification", c.P.Pos(cl.Pos()),
					"SignatureVerification: true", "a production qbft.Config does not enable signature verification: every BLS check inside the instance is skipped")
				return true
			})
		}
	}
	c.Min(rule, n, 2, "qbft.Config literals in node packages")
	c.Min(rule, np, 1, "ProposerF settings")
}

func enclosingFuncName(info *types.Info, file *ast.File, n ast.Node) string {
	name := "?"
	if file == nil {
		return name
	}
	for _, d := range file.Decls {
		if fd, ok := d.(*ast.FuncDecl); ok && fd.Pos() <= n.Pos() && n.End() <= fd.End() {
			if f, ok := info.Defs[fd.Name].(*types.Func); ok {
				name = ens.FuncName(f)
			}
		}
	}
	return name
}

// returnsRoundRobin: the function literal's result is, on every return, the
// value of specqbft.RoundRobinProposer applied to its own two parameters.
func returnsRoundRobin(info *types.Info, fl *ast.FuncLit) bool {
	if fl.Type.Params == nil || len(fl.Type.Params.List) == 0 {
		return false
	}
	var params []types.Object
	for _, f := range fl.Type.Params.List {
		for _, nm := range f.Names {
			params = append(params, info.Defs[nm])
		}
	}
	if len(params) != 2 {
		return false
	}
	isRR := func(e ast.Expr) bool {
		call, ok := e.(*ast.CallExpr)
		if !ok || len(call.Args) != 2 {
			return false
		}
		var fobj types.Object
		switch f := call.Fun.(type) {
		case *ast.SelectorExpr:
			fobj = info.Uses[f.Sel]
		case *ast.Ident:
			fobj = info.Uses[f]
		}
		tf, _ := fobj.(*types.Func)
		if tf == nil || ens.FuncName(tf) != "ssv-spec/qbft.RoundRobinProposer" {
			return false
		}
		for i, a := range call.Args {
			id, ok := a.(*ast.Ident)
			if !ok || info.Uses[id] != params[i] {
				return false
			}
		}
		return true
	}
	// locals assigned exactly once from the round-robin call
	rrVars := map[types.Object]bool{}
	assigned := map[types.Object]int{}
	ast.Inspect(fl.Body, func(n ast.Node) bool {
		if as, ok := n.(*ast.AssignStmt); ok {
			for i, l := range as.Lhs {
				id, ok := l.(*ast.Ident)
				if !ok {
					continue
				}
				obj := info.Defs[id]
				if obj == nil {
					obj = info.Uses[id]
				}
				assigned[obj]++
				if len(as.Rhs) == len(as.Lhs) && isRR(as.Rhs[i]) {
					rrVars[obj] = true
				}
			}
		}
		return true
	})
	ok, nret := true, 0
	ast.Inspect(fl.Body, func(n ast.Node) bool {
		if _, isLit := n.(*ast.FuncLit); isLit {
			return false
		}
		if r, isRet := n.(*ast.ReturnStmt); isRet {
			nret++
			if len(r.Results) != 1 {
				ok = false
				return true
			}
			if isRR(r.Results[0]) {
				return true
			}
			if id, isId := r.Results[0].(*ast.Ident); isId && rrVars[info.Uses[id]] && assigned[info.Uses[id]] == 1 {
				return true
			}
			ok = false
		}
		return true
	})
	return ok && nret > 0
}

// quorumNormalForm compares the return expressions of the quorum arithmetic
// with the reference normal forms (operands of commutative operators are
// order-insensitive).
func quorumNormalForm(c *core.Ctx) {
	check := func(fnSpec string, want []string, why string) {
		f := fn(c, "C01-R6", fnSpec)
		if f == nil {
			return
		}
		a := c.E.Analyze(f)
		exits, _ := a.Exits("any")
		if len(exits) != 1 {
			c.Undischarged("C01-R6", short(fnSpec)+"|shape", "expected a single return")
			return
		}
		for i, r := range exits[0].Ret.Results {
			got := canonArith(a.D.D(r))
			c.Decide(i < len(want) && got == want[i], "C01-R6", fmt.Sprintf("%s|result %d", short(fnSpec), i), c.P.Pos(exits[0].Ret.Pos()),
				got, fmt.Sprintf("%s: result %d is %s, reference normal form is %s", why, i, got, safeIdx(want, i)))
		}
	}
	check(ssv+"protocol/v2/types.ComputeQuorumAndPartialQuorum", []string{"uint64(((((p0 - 1) / 3) * 2) + 1))", "uint64((((p0 - 1) / 3) + 1))"}, "quorum must be 2f+1 and partial quorum f+1 with f=⌊(n−1)/3⌋")
	ensures(c, "C01-R6", ssv+"protocol/v2/types.ValidCommitteeSize", "ret=true", []Req{
		{"3f+1", "eq(((p0 - 1) % 3), 0) || eq(0, ((p0 - 1) % 3))", "committee sizes must be 3f+1"},
		{"f>=1", "le(1, ((p0 - 1) / 3))", ""},
		{"f<=4", "le(((p0 - 1) / 3), 4)", ""},
	})
	ensures(c, "C01-R6", spec+"types.Share.HasQuorum", "ret=true", []Req{{"threshold", "le(p0.Quorum, uint64(p1))", "quorum test must be cnt ≥ Share.Quorum"}})
	ensures(c, "C01-R6", spec+"types.Share.HasPartialQuorum", "ret=true", []Req{{"threshold", "le(p0.PartialQuorum, uint64(p1))", ""}})
}

func safeIdx(s []string, i int) string {
	if i < len(s) {
		return s[i]
	}
	return "?"
}

// canonArith renders an arithmetic node with the operands of + and * sorted.
func canonArith(n *ens.Node) string {
	switch n.K {
	case "bin":
		a, b := canonArith(n.A[0]), canonArith(n.A[1])
		if (n.L == "+" || n.L == "*") && a > b {
			a, b = b, a
		}
		return "(" + a + " " + n.L + " " + b + ")"
	case "conv":
		return n.L + "(" + canonArith(n.A[0]) + ")"
	}
	return n.String()
}

var _ = strings.Contains

// checkQuorumStores: every write of Share.Quorum / Share.PartialQuorum in the node takes the first
// resp. second result of ComputeQuorumAndPartialQuorum applied to the length of the committee that
// the same share carries (swapped results give a quorum of f+1 after a reload from the database).
func checkQuorumStores(c *core.Ctx, rule string) {
	fixtures := map[string]string{
		"github.com/bloxapp/ssv/protocol/v2/qbft.init":   "TestingShare fixture of the test utilities",
		"ssv/protocol/v2/qbft/testing.TestingShare":      "test fixture built from a key set's thresholds",
		"ssv/protocol/v2/ssv/validator.Validator.logMsg": "",
	}
	n := 0
	for i, fld := range []string{"Quorum", "PartialQuorum"} {
		fv, err := c.P.LookupField(spec + "types.Share." + fld)
		if err != nil {
			c.Undischarged(rule, "anchor:Share."+fld, err.Error())
			continue
		}
		for _, s := range writersOf(c, fv) {
			st, ok := s.Instr.(*ssa.Store)
			if !ok {
				continue
			}
			encl := ens.SSAFuncName(topFunc(s.Encl))
			construct := fmt.Sprintf("Share.%s|writer %s", fld, encl)
			if strings.HasPrefix(encl, "ssv-spec/") {
				continue
			}
			if why, ok := fixtures[encl]; ok && why != "" {
				c.OK(rule, construct, c.P.Pos(st.Pos()), "allow-listed: "+why)
				continue
			}
			n++
			a := c.E.Analyze(s.Encl)
			val := a.D.D(st.Val)
			// ComputeQuorumAndPartialQuorum is a pure expression function: its results appear inlined
			got := canonArith(val)
			pre, post := []string{"uint64(((((", "uint64(((("}[i], []string{" - 1) / 3) * 2) + 1))", " - 1) / 3) + 1))"}[i]
			if !strings.HasPrefix(got, pre) || !strings.HasSuffix(got, post) {
				c.Fail(rule, construct, c.P.Pos(st.Pos()), fmt.Sprintf("Share.%s is set to %s; it must be result %d of ComputeQuorumAndPartialQuorum(len(committee)): quorum 2f+1 first, partial quorum f+1 second", fld, clip(got), i))
				continue
			}
			arg := got[len(pre) : len(got)-len(post)]
			base := ""
			if fa, ok := st.Addr.(*ssa.FieldAddr); ok {
				base = a.D.D(fa.X).String()
			}
			okArg := strings.HasPrefix(arg, "len(") && strings.HasSuffix(arg, ")")
			if okArg {
				inner := arg[4 : len(arg)-1]
				sameShare := base != "" && (inner == base+".Committee" || strings.HasSuffix(inner, ".Committee") && strings.HasPrefix(base, strings.TrimSuffix(inner, ".Committee")))
				if sameShare && !strings.HasPrefix(base, "p") {
					// a share built in this function: its Committee must have been assigned before it is measured
					sameShare = false
					for _, b := range s.Encl.Blocks {
						for idx, in := range b.Instrs {
							st2, ok := in.(*ssa.Store)
							if !ok {
								continue
							}
							fa2, ok := st2.Addr.(*ssa.FieldAddr)
							if !ok || fieldName(fa2) != "Committee" {
								continue
							}
							if b == st.Block() {
								for j, in2 := range b.Instrs {
									if in2 == ssa.Instruction(st) && idx < j {
										sameShare = true
									}
								}
							} else if b.Dominates(st.Block()) {
								sameShare = true
							}
						}
					}
				}
				if !sameShare {
					// or the slice is stored as this share's committee in the same function
					for _, b := range s.Encl.Blocks {
						for _, in := range b.Instrs {
							if st2, ok := in.(*ssa.Store); ok {
								if fa2, ok := st2.Addr.(*ssa.FieldAddr); ok && fieldName(fa2) == "Committee" && a.D.D(st2.Val).String() == inner {
									sameShare = true
								}
							}
						}
					}
				}
				okArg = sameShare
			}
			c.Decide(okArg, rule, construct, c.P.Pos(st.Pos()), "result "+fmt.Sprint(i)+" of ComputeQuorumAndPartialQuorum(len(committee))",
				fmt.Sprintf("Share.%s is computed from %s, not from the length of the share's own committee", fld, clip(arg)))
		}
	}
	c.Min(rule, n, 4, "writes of Share.Quorum / Share.PartialQuorum outside fixtures")
}

func fieldName(fa *ssa.FieldAddr) string {
	t := fa.X.Type().Underlying()
	if p, ok := t.(*types.Pointer); ok {
		t = p.Elem().Underlying()
	}
	if st, ok := t.(*types.Struct); ok && fa.Field < st.NumFields() {
		return st.Field(fa.Field).Name()
	}
	return ""
}
