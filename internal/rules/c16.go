package rules

import (
	"fmt"
	"go/token"
	"regexp"
	"strings"

	"golang.org/x/tools/go/ssa"

	"verif/ssvcheck/internal/core"
	"verif/ssvcheck/internal/ens"
)

const dutiesPkg = ssv + "operator/duties"
const dN = "ssv/operator/duties."

type dutyHandlerSpec struct {
	typ        string
	fetchCall  string // beacon-node call whose success must precede store mutation
	storeGlobs []string
	execArgs   string // "epoch" | "period"
}

var tickHandlers = []dutyHandlerSpec{
	{"AttesterHandler", dN + "BeaconNode.AttesterDuties", []string{"ssv/operator/duties/dutystore.Duties*.Add", "ssv/operator/duties/dutystore.Duties*.ResetEpoch"}, "epoch"},
	{"ProposerHandler", dN + "BeaconNode.ProposerDuties", []string{"ssv/operator/duties/dutystore.Duties*.Add", "ssv/operator/duties/dutystore.Duties*.ResetEpoch"}, "epoch"},
	{"SyncCommitteeHandler", dN + "BeaconNode.SyncCommitteeDuties", []string{"ssv/operator/duties/dutystore.SyncCommitteeDuties.Add", "ssv/operator/duties/dutystore.SyncCommitteeDuties.Reset"}, "period"},
}

func init() {
	register(&Check{
		Prop: "C16",
		Pkgs: []string{"./..."},
		Setup: func(e *ens.Engine) {
			cur := "ssv/protocol/v2/blockchain/beacon.BeaconNetwork.EstimatedCurrentSlot(p0.baseHandler.network.Beacon)"
			e.Derived = append(e.Derived,
				ens.Derived{Func: dN + "AttesterHandler.shouldExecute", Name: "window",
					Alts: [][]string{
						{"le(p1.Slot, " + cur + ")", "le((" + cur + " - p1.Slot), ssv/protocol/v2/blockchain/beacon.BeaconNetwork.SlotsPerEpoch(p0.baseHandler.network.Beacon))"},
						{"eq((" + cur + " + 1:Slot), p1.Slot)"},
					}},
				ens.Derived{Func: dN + "ProposerHandler.shouldExecute", Name: "window",
					Alts: [][]string{{"eq(" + cur + ", p1.Slot)"}, {"eq((" + cur + " + 1:Slot), p1.Slot)"}}},
				ens.Derived{Func: dN + "SyncCommitteeHandler.shouldExecute", Name: "window",
					Alts: [][]string{{"eq(" + cur + ", p2)"}, {"eq((" + cur + " + 1:Slot), p2)"}}},
			)
		},
		Explain: "Exactly-once under all interleavings of ticks, reorgs, index changes and fetch failures is NOT decided. Decided structural necessary conditions: " +
			"(R1) the executeDuties callback is invoked at exactly five sites (processExecution of the attester / proposer / sync-committee handlers and the ticker cases of the registration and voluntary-exit handlers); processExecution is called only from its handler's HandleDuties, only inside the select case that receives from ticker.Next(), with the slot read from ticker.Slot() and the epoch/period derived from that slot; " +
			"(R2) on every path through the ticker case processExecution is called exactly once (two mutually exclusive sites on fetchFirst); in the fetch-first branch fetching precedes execution, in the normal branch execution precedes any re-fetch/reset (execute-then-refetch), for all three handlers; " +
			"(R3) every dispatched duty comes from the store lookup for the tick's (epoch|period, slot) and passed shouldExecute, whose true-exit implies the handler's slot window; the duty store of an epoch/period is mutated by a re-fetch only after the beacon node returned the new assignment (a failed re-fetch must not wipe a fetched assignment); " +
			"(R4) the reorg and indices-change cases never execute duties (consequence of R1's select-case fact).",
		Rules: []string{
			"C16-R1 who-invokes(executeDuties) = 5 sites; facts-before(processExecution) ∋ select case = <-ticker.Next(); args from ticker.Slot()",
			"C16-R2 two exclusive sites; ordering facts fetch/execute per branch",
			"C16-R4 resets of stored duties outside the ticker case are paired with the re-fetch flag of the same scope (forward must-pass-through to the next select)",
			"C16-R3 facts-before(append to toExecute) ∋ shouldExecute; Ens(shouldExecute|true) ∋ window; store mutation only after successful fetch",
		},
		Trusted: []string{"go/types + go/ssa"},
		Run:     runC16,
	})
}

func runC16(c *core.Ctx) {
	// ---------------- R1: who invokes the callback field
	fv, err := c.P.LookupField(dutiesPkg + ".baseHandler.executeDuties")
	if err != nil {
		c.Undischarged("C16-R1", "anchor:baseHandler.executeDuties", err.Error())
		return
	}
	allow := map[string]string{
		dN + "AttesterHandler.processExecution":          "tick execution",
		dN + "ProposerHandler.processExecution":          "tick execution",
		dN + "SyncCommitteeHandler.processExecution":     "tick execution",
		dN + "ValidatorRegistrationHandler.HandleDuties": "ticker case",
		dN + "VoluntaryExitHandler.HandleDuties":         "ticker case",
	}
	n := 0
	for _, f := range c.P.SourceFuncs(dutiesPkg) {
		for _, b := range f.Blocks {
			for _, in := range b.Instrs {
				ci, ok := in.(ssa.CallInstruction)
				if !ok {
					continue
				}
				ld, ok := ci.Common().Value.(*ssa.UnOp)
				if !ok || ld.Op != token.MUL {
					continue
				}
				fa, ok := ld.X.(*ssa.FieldAddr)
				if !ok || fieldVar(fa) != fv {
					continue
				}
				n++
				encl := enclName(f)
				why, ok := allow[encl]
				c.Decide(ok, "C16-R1", "executeDuties|invoked from "+encl, c.P.Pos(ci.Pos()), "allow-listed: "+why, "the duty callback is invoked from "+encl+": duties may only be dispatched by the tick execution paths")
				if strings.HasSuffix(encl, ".HandleDuties") {
					checkTickerCase(c, "C16-R1", f, ci, encl+"|executeDuties")
				}
			}
		}
	}
	c.Min("C16-R1", n, 5, "executeDuties invocation sites")

	// ---------------- per handler
	for _, h := range tickHandlers {
		hd := dutiesPkg + ".(*" + h.typ + ").HandleDuties"
		pe := dN + h.typ + ".processExecution"
		// who may call processExecution
		if tf, err := c.P.LookupFunc(dutiesPkg + ".(*" + h.typ + ").processExecution"); err == nil {
			whoMayCall(c, "C16-R1", h.typ+".processExecution", mapOf(tf), nil, map[string]string{dN + h.typ + ".HandleDuties": "ticker case only"})
		} else {
			c.Undischarged("C16-R1", "anchor:"+h.typ+".processExecution", err.Error())
			continue
		}
		f := fn(c, "C16-R1", hd)
		if f == nil {
			continue
		}
		sites := callsIn(f, pe)
		c.Decide(len(sites) == 2, "C16-R2", h.typ+".HandleDuties|two execution sites", c.P.Pos(f.Pos()), "2 sites", fmt.Sprintf("%d processExecution call sites in the ticker case; the shape 'exactly one execution per tick, on either side of fetchFirst' is gone", len(sites)))
		slot := "ssv/operator/slotticker.SlotTicker.Slot(p0.baseHandler.ticker)"
		var firstBranch, elseBranch *callSite
		for i := range sites {
			s := &sites[i]
			facts := s.Facts(c)
			checkTickerCase(c, "C16-R1", s.Fn, s.Instr, fmt.Sprintf("%s.HandleDuties|processExecution#%d", h.typ, i+1))
			// arguments: slot from the ticker, epoch/period derived from that slot
			args := s.Instr.Common().Args
			sl := s.Arg(c, len(args)-1).String()
			ep := s.Arg(c, len(args)-2).String()
			c.Decide(sl == slot, "C16-R1", fmt.Sprintf("%s.HandleDuties|processExecution#%d|slot-arg", h.typ, i+1), c.P.Pos(s.Instr.Pos()), sl, "the executed slot is "+sl+", not the tick's slot")
			c.Decide(strings.Contains(ep, slot) && strings.Contains(ep, "EstimatedEpochAtSlot"), "C16-R1", fmt.Sprintf("%s.HandleDuties|processExecution#%d|%s-arg", h.typ, i+1, h.execArgs), c.P.Pos(s.Instr.Pos()), clip(ep), "the executed "+h.execArgs+" is not derived from the tick's slot: "+clip(ep))
			if _, ok := facts.Has("T(p0.baseHandler.fetchFirst)"); ok {
				firstBranch = s
			}
			if _, ok := facts.Has("F(p0.baseHandler.fetchFirst)"); ok {
				elseBranch = s
			}
		}
		c.Decide(firstBranch != nil && elseBranch != nil && firstBranch != elseBranch, "C16-R2", h.typ+".HandleDuties|sites exclusive on fetchFirst", c.P.Pos(f.Pos()), "one site under fetchFirst, one under !fetchFirst",
			"the two execution sites are not the two sides of the fetchFirst branch: a tick could execute twice or not at all")
		if firstBranch != nil && elseBranch != nil {
			fa := firstBranch.Facts(c)
			_, fetched := fa.Has("called(" + dN + h.typ + ".processFetching(*")
			c.Decide(fetched, "C16-R2", h.typ+".HandleDuties|fetch-first branch fetches before executing", c.P.Pos(firstBranch.Instr.Pos()), "fetch precedes execute", "on the first tick duties are executed before they are fetched")
			ea := elseBranch.Facts(c)
			_, fetchedBefore := ea.Has("called(" + dN + h.typ + ".processFetching(*")
			_, resetBefore := ea.Has("called(ssv/operator/duties/dutystore.*Reset*(*")
			c.Decide(!fetchedBefore && !resetBefore, "C16-R2", h.typ+".HandleDuties|normal branch executes before re-fetch/reset", c.P.Pos(elseBranch.Instr.Pos()), "execute precedes fetch/reset",
				"on a normal tick the duty store is re-fetched or reset before the slot's duties are executed: duties of this slot can be lost or replaced")
			// every fetch/reset site on the !fetchFirst side of the tick comes after the execution
			for _, glob := range []string{dN + h.typ + ".processFetching", "ssv/operator/duties/dutystore.*.ResetEpoch", "ssv/operator/duties/dutystore.*.Reset"} {
				for j, fs := range callsIn(f, glob) {
					ff := fs.Facts(c)
					if _, tick := ff.Has("F(p0.baseHandler.fetchFirst)"); !tick {
						continue
					}
					_, after := ff.Has("called(" + pe + "*(p0, *")
					c.Decide(after, "C16-R2", fmt.Sprintf("%s.HandleDuties|%s#%d after execution", h.typ, fs.Label, j+1), c.P.Pos(fs.Instr.Pos()), "after processExecution", fs.Label+" on a normal tick happens before processExecution")
				}
			}
		}

		// ---------------- R3
		pes := dutiesPkg + ".(*" + h.typ + ").processExecution"
		k := atCalls(c, "C16-R3", pes, "append", []Req{
			{"should-execute", "T(" + dN + h.typ + ".shouldExecute(p0, *))", "only duties inside the slot window are dispatched"},
		})
		c.Min("C16-R3", k, 1, "append sites in "+h.typ+".processExecution")
		if pf := fn(c, "C16-R3", pes); pf != nil {
			a := c.E.Analyze(pf)
			for _, s := range callsIn(pf, dN+h.typ+".shouldExecute") {
				d := a.D.D(s.Instr.Common().Args[1]).String()
				want := "CommitteeSlotDuties(p0.duties, p1, p2)"
				if h.execArgs == "period" {
					want = "CommitteePeriodDuties(p0.duties, p1)"
				}
				c.Decide(strings.Contains(d, want), "C16-R3", h.typ+".processExecution|duties come from the tick's lookup", c.P.Pos(s.Instr.Pos()), clip(d), "the executed duties are not the store's duties for the tick's arguments: "+clip(d))
			}
		}
		ensures(c, "C16-R3", dutiesPkg+".(*"+h.typ+").shouldExecute", "ret=true", []Req{
			{"slot-window", "or(window)", "a duty outside its slot window must not be dispatched"},
		})
		// store mutation only after a successful fetch
		fp := dutiesPkg + ".(*" + h.typ + ").fetchAndProcessDuties"
		k = 0
		for _, g := range h.storeGlobs {
			k += atCalls(c, "C16-R3", fp, g, []Req{
				{"after-successful-fetch", "ok(" + h.fetchCall + "(p0.baseHandler.beaconNode, *))", "the stored assignment may only be replaced by a successfully fetched one (a failed re-fetch must leave the fetched duties in place)"},
			})
		}
		c.Min("C16-R3", k, 1, "duty-store mutations in "+h.typ+".fetchAndProcessDuties")
		checkResetRefetch(c, h.typ, f)
	}
}

// resetFlags: per handler, the fields whose setting makes the next tick fetch
// the duties of the current / the next epoch or period again.
var resetFlags = map[string]map[string][]string{
	"AttesterHandler":      {"current": {"fetchCurrentEpoch"}, "next": {"fetchNextEpoch"}},
	"ProposerHandler":      {"current": {"fetchFirst"}},
	"SyncCommitteeHandler": {"current": {"fetchCurrentPeriod"}, "next": {"fetchNextPeriod"}},
}

// checkResetRefetch (C16-R4): outside the ticker case (reorg, indices change),
// wiping the stored duties of a scope is paired, on every path to the next
// select, with setting the flag that re-fetches THAT scope. Wiping the current
// scope and flagging only the next one (or vice versa) silently drops fetched,
// unchanged duties until the scope ends.
func checkResetRefetch(c *core.Ctx, typ string, f *ssa.Function) {
	const rule = "C16-R4"
	var selBlock *ssa.BasicBlock
	for _, b := range f.Blocks {
		for _, in := range b.Instrs {
			if _, ok := in.(*ssa.Select); ok {
				selBlock = b
			}
		}
	}
	if selBlock == nil {
		c.Undischarged(rule, typ+".HandleDuties|select loop", "no select found")
		return
	}
	n := 0
	for _, s := range callsIn(f, "ssv/operator/duties/dutystore.*.Reset*") {
		if s.Fn != f && len(s.Via) == 0 {
			continue // inside a closure of HandleDuties: none today
		}
		facts := s.Facts(c)
		if facts == nil || isTickerCase(facts) {
			continue // expiry of a finished scope / re-fetch handled by processFetching in the same tick (C16-R2)
		}
		args := s.Instr.Common().Args
		arg := s.Arg(c, len(args)-1).String()
		scope := "current"
		switch {
		case reScopeNext.MatchString(arg):
			scope = "next"
		case reScopePast.MatchString(arg):
			continue // a past scope needs no re-fetch
		}
		n++
		flags := resetFlags[typ][scope]
		construct := fmt.Sprintf("%s.HandleDuties|%s(%s scope)|re-fetch flagged", typ, s.Label[strings.LastIndex(s.Label, ".")+1:], scope)
		if len(flags) == 0 {
			c.Fail(rule, construct, c.P.Pos(s.Instr.Pos()), "the "+scope+" scope is wiped but this handler has no flag that re-fetches it")
			continue
		}
		isFlag := func(in ssa.Instruction) bool {
			st, ok := in.(*ssa.Store)
			if !ok {
				return false
			}
			fa, ok := st.Addr.(*ssa.FieldAddr)
			if !ok {
				return false
			}
			k, isConst := st.Val.(*ssa.Const)
			if !isConst || k.Value == nil || k.Value.String() != "true" {
				return false
			}
			for _, fl := range flags {
				if fieldVar(fa) != nil && fieldVar(fa).Name() == fl {
					return true
				}
			}
			return false
		}
		// already flagged on every path before the reset?
		okBefore := false
		for _, fl := range flags {
			if _, ok := facts.Has("stored(p0." + fl + ", true)"); ok {
				okBefore = true
			}
			if _, ok := facts.Has("stored(p0.baseHandler." + fl + ", true)"); ok {
				okBefore = true
			}
		}
		ok := okBefore || mustPassThroughVia(s, isFlag, selBlock)
		c.Decide(ok, rule, construct, c.P.Pos(s.Instr.Pos()), "every path to the next select sets "+strings.Join(flags, "/"),
			fmt.Sprintf("the stored duties of the %s scope (%s) are wiped in a reorg / indices-change case, but not every path to the next select sets %s: those duties are not fetched again and are not dispatched until the scope ends", scope, clip(arg), strings.Join(flags, " or ")))
	}
	want := map[string]int{"AttesterHandler": 4, "ProposerHandler": 1, "SyncCommitteeHandler": 1}[typ]
	c.Min(rule, n, want, typ+" resets outside the ticker case")
	// the converse, for a handler whose fetch only ADDS to the store (it does not clear the scope
	// itself): asking for a re-fetch of the next scope outside the ticker case must be preceded by
	// wiping that scope, or the stale assignment stays merged with the new one and a validator whose
	// slot moved is dispatched at the old slot too
	ff, err := c.P.Func(dutiesPkg + ".(*" + typ + ").fetchAndProcessDuties")
	if err != nil || len(callsIn(ff, "ssv/operator/duties/dutystore.*.Reset*")) > 0 {
		return
	}
	nextFlags := resetFlags[typ]["next"]
	k := 0
	isNextFlag := func(st *ssa.Store) bool {
		fa, ok := st.Addr.(*ssa.FieldAddr)
		cst, isConst := st.Val.(*ssa.Const)
		if !ok || !isConst || cst.Value == nil || cst.Value.String() != "true" || fieldVar(fa) == nil {
			return false
		}
		for _, fl := range nextFlags {
			if fieldVar(fa).Name() == fl {
				return true
			}
		}
		return false
	}
	for _, ss := range storesWhere(f, isNextFlag) {
		facts := ss.Facts(c)
		if facts == nil || !inSelectCase(facts) || isTickerCase(facts) {
			continue // before the loop, or the scheduled first fetch of the next scope: nothing stale to wipe
		}
		k++
		_, wiped := facts.Has("called(ssv/operator/duties/dutystore.*.Reset*(*, (* + 1*)))")
		c.Decide(wiped, rule, fmt.Sprintf("%s.HandleDuties|re-fetch of the next scope #%d wipes it first", typ, k), c.P.Pos(ss.Store.Pos()), "next scope reset before the flag",
			"the next scope is flagged for re-fetch in a reorg / indices-change case without being wiped first: "+typ+"'s fetch only adds, so stale duties stay and are dispatched besides the new ones")
	}
	c.Min(rule, k, 3, typ+" next-scope re-fetch flags outside the ticker case")
}

var reScopeNext = regexp.MustCompile(` \+ 1(:\w+)?\)$`)
var reScopePast = regexp.MustCompile(` - 1(:\w+)?\)$`)

// mustPassThroughVia: as mustPassThrough, but when the site lies in a private helper and a
// path leaves the helper without meeting the target, the search continues after the helper
// call in its caller (up the chain the site was found through).
func mustPassThroughVia(s callSite, target func(ssa.Instruction) bool, stop *ssa.BasicBlock) bool {
	from := s.Instr.(ssa.Instruction)
	for i := len(s.Via); ; i-- {
		r := passThrough(from, target, stop)
		if r == ptYes {
			return true
		}
		if r == ptNo || i == 0 {
			return false
		}
		from = s.Via[i-1].Site.(ssa.Instruction) // ptReturned: continue after the helper call
	}
}

type ptResult int

const (
	ptYes      ptResult = iota // target on every path
	ptNo                       // a path reaches stop (or a dead end) without the target
	ptReturned                 // otherwise fine, but some path returns from the function first
)

func passThrough(from ssa.Instruction, target func(ssa.Instruction) bool, stop *ssa.BasicBlock) ptResult {
	b := from.Block()
	idx := -1
	for i, in := range b.Instrs {
		if in == from {
			idx = i
		}
	}
	visited := map[*ssa.BasicBlock]bool{}
	res := ptYes
	var walk func(b *ssa.BasicBlock, start int) bool
	walk = func(b *ssa.BasicBlock, start int) bool {
		for i := start; i < len(b.Instrs); i++ {
			if target(b.Instrs[i]) {
				return true
			}
			if _, ret := b.Instrs[i].(*ssa.Return); ret {
				res = ptReturned
				return true
			}
		}
		if len(b.Succs) == 0 {
			return false
		}
		for _, s := range b.Succs {
			if s == stop {
				return false
			}
			if visited[s] {
				continue
			}
			visited[s] = true
			if !walk(s, 0) {
				return false
			}
		}
		return true
	}
	if !walk(b, idx+1) {
		return ptNo
	}
	return res
}

// mustPassThrough: every path from just after `from` reaches an instruction
// satisfying target before it reaches block stop or leaves the function.
func mustPassThrough(from ssa.Instruction, target func(ssa.Instruction) bool, stop *ssa.BasicBlock) bool {
	b := from.Block()
	idx := -1
	for i, in := range b.Instrs {
		if in == from {
			idx = i
		}
	}
	visited := map[*ssa.BasicBlock]bool{}
	var walk func(b *ssa.BasicBlock, start int) bool
	walk = func(b *ssa.BasicBlock, start int) bool {
		for i := start; i < len(b.Instrs); i++ {
			if target(b.Instrs[i]) {
				return true
			}
			if _, ret := b.Instrs[i].(*ssa.Return); ret {
				return false
			}
		}
		if len(b.Succs) == 0 {
			return false
		}
		for _, s := range b.Succs {
			if s == stop {
				return false
			}
			if visited[s] {
				continue
			}
			visited[s] = true
			if !walk(s, 0) {
				return false
			}
		}
		return true
	}
	return walk(b, idx+1)
}

// inSelectCase: the facts place the instruction inside some case of a select.
func inSelectCase(facts ens.FactSet) bool {
	for _, k := range facts.Keys() {
		ft := facts[k]
		if ft.Kind != "eq" || len(ft.A) != 2 {
			continue
		}
		for i := 0; i < 2; i++ {
			sel, idx := ft.A[i], ft.A[1-i]
			if sel.K == "extract" && sel.L == "0" && len(sel.A) == 1 && sel.A[0].K == "select" && idx.K == "const" {
				return true
			}
		}
	}
	return false
}

func isTickerCase(facts ens.FactSet) bool {
	for _, k := range facts.Keys() {
		ft := facts[k]
		if ft.Kind != "eq" || len(ft.A) != 2 {
			continue
		}
		for i := 0; i < 2; i++ {
			sel, idx := ft.A[i], ft.A[1-i]
			if sel.K != "extract" || sel.L != "0" || len(sel.A) != 1 || sel.A[0].K != "select" || idx.K != "const" {
				continue
			}
			ci := atoiSafe(idx.L)
			states := sel.A[0].A
			if ci >= 0 && ci < len(states) && states[ci].K == "recv" && strings.Contains(states[ci].String(), "ssv/operator/slotticker.SlotTicker.Next") {
				return true
			}
		}
	}
	return false
}

// checkTickerCase: the instruction is dominated by "select chose case k" and
// case k of that select receives from a channel obtained from ticker.Next().
func checkTickerCase(c *core.Ctx, rule string, f *ssa.Function, ins ssa.Instruction, construct string) {
	a := c.E.Analyze(f)
	facts := a.FactsAt(ins)
	found, okCase := false, false
	detail := ""
	for _, k := range facts.Keys() {
		ft := facts[k]
		if ft.Kind != "eq" || len(ft.A) != 2 {
			continue
		}
		for i := 0; i < 2; i++ {
			sel, idx := ft.A[i], ft.A[1-i]
			if sel.K != "extract" || sel.L != "0" || len(sel.A) != 1 || sel.A[0].K != "select" || idx.K != "const" {
				continue
			}
			found = true
			ci := atoiSafe(idx.L)
			states := sel.A[0].A
			if ci >= 0 && ci < len(states) {
				detail = states[ci].String()
				if states[ci].K == "recv" && strings.Contains(detail, "ssv/operator/slotticker.SlotTicker.Next") {
					okCase = true
				}
			}
		}
	}
	if !found {
		c.Fail(rule, construct+"|in ticker case", c.P.Pos(ins.Pos()), "not dominated by a select case: duties would be dispatched outside the slot tick")
		return
	}
	c.Decide(okCase, rule, construct+"|in ticker case", c.P.Pos(ins.Pos()), "inside case "+clip(detail), "dispatched in select case "+clip(detail)+", which is not the slot ticker: duties must be dispatched at the tick of their slot only")
}
