package rules

import (
	"fmt"
	"go/ast"
	"go/constant"
	"go/token"
	"go/types"
	"strings"

	"golang.org/x/tools/go/ssa"

	"verif/ssvcheck/internal/core"
	"verif/ssvcheck/internal/ens"
)

const mvPkg = ssv + "message/validation"
const mvN = "ssv/message/validation."
const mvM = mvN + "messageValidator."

func mvSetup(e *ens.Engine) {
	qbftSetup(e)
	st := mvN + "ConsensusState.GetSignerState(p1, p2)"
	e.Derived = append(e.Derived,
		ens.Derived{Func: mvM + "validateConsensusMessage", Name: "signature-verified",
			Alts: [][]string{{"isnil(p5)"}, {"ok(dyn[p5]())"}}},
		ens.Derived{Func: mvM + "validateConsensusMessage", Name: "full-data-matches-root",
			Alts: [][]string{{"F(" + mvM + "hasFullData(p0, p2))"}, {"eq(p2.Message.Root, ssv-spec/qbft.HashDataRoot(p2.FullData)#0)"}}},
		ens.Derived{Func: mvM + "validatePartialSignatureMessage", Name: "signature-verified",
			Alts: [][]string{{"isnil(p4)"}, {"ok(dyn[p4]())"}}},
		ens.Derived{Func: mvM + "validatePartialSignatureMessage", Name: "signer-behaviour-checked",
			Alts: [][]string{{"isnil(" + mvN + "ConsensusState.GetSignerState(*, p2.Signer))"}, {"ok(" + mvM + "validateSignerBehaviorPartial(p0, *, p2.Signer, p1, p3, p2))"}}},
		ens.Derived{Func: mvM + "validateSignerBehaviorConsensus", Name: "round-not-decreasing",
			Alts: [][]string{{"ne(p5.Message.Height, " + st + ".Slot)"}, {"le(" + st + ".Round, p5.Message.Round)"}}},
		ens.Derived{Func: mvM + "validateSignerBehaviorConsensus", Name: "per-round-count-limit",
			Alts: [][]string{{"ne(p5.Message.Height, " + st + ".Slot)"}, {"ne(p5.Message.Round, " + st + ".Round)"},
				{"ok(" + mvN + "MessageCounts.ValidateConsensusMessage(" + st + ".MessageCounts, p5, " + mvN + "maxMessageCounts(len(p3.Share.Committee))))"}}},
		ens.Derived{Func: mvM + "validateSignerBehaviorConsensus", Name: "no-second-proposal-with-other-data",
			Alts: [][]string{{"ne(p5.Message.Height, " + st + ".Slot)"}, {"ne(p5.Message.Round, " + st + ".Round)"},
				{"F(" + mvM + "hasFullData(p0, p5))"}, {"isnil(" + st + ".ProposalData)"}, {"T(bytes.Equal(" + st + ".ProposalData, p5.FullData))"}}},
		ens.Derived{Func: mvM + "validateP2PMessage", Name: "envelope-decoded-when-fork-active",
			Alts: [][]string{{"le(ssv/protocol/v2/blockchain/beacon.BeaconNetwork.EstimatedEpochAtSlot(*), p0.netCfg.PermissionlessActivationEpoch)"}, {"ok(ssv/network/commons.DecodeSignedSSVMessage(local:*))"}}},
		ens.Derived{Func: mvM + "validateSSVMessage", Name: "validator-state-checked",
			Alts: [][]string{{"isnil(p0.nodeStorage)"},
				{"nonnil(ssv/registry/storage.Shares.Get(ssv/operator/storage.Storage.Shares(p0.nodeStorage), nil, *))", "F(ssv/registry/storage.Shares.Get(*).Metadata.Liquidated)", "nonnil(ssv/registry/storage.Shares.Get(*).Metadata.BeaconMetadata)", "T(ssv/protocol/v2/types.SSVShare.IsAttesting(*EstimatedCurrentEpoch(p0.netCfg.Beacon)))"}}},
		ens.Derived{Func: mvM + "validateJustifications", Name: "proposal-justified",
			Alts: [][]string{{"ne(0:MessageType, p2.Message.MsgType)"},
				{"ok(" + iN + "IsProposalJustification(" + mvN + "newQBFTConfig(p0.netCfg.Domain), p1, ssv-spec/qbft.Message.GetRoundChangeJustifications(p2.Message)#0, ssv-spec/qbft.Message.GetPrepareJustifications(p2.Message)#0, p2.Message.Height, p2.Message.Round, p2.FullData))"}}},
		ens.Derived{Func: mvM + "verifySignature", Name: "operator-registered",
			Alts: [][]string{{"T(github.com/cornelk/hashmap.Map.Get(p0.operatorIDToPubkeyCache, p2)#1)"}, {"T(ssv/registry/storage.Operators.GetOperatorData(p0.nodeStorage, nil, p2)#1)", "ok(ssv/registry/storage.Operators.GetOperatorData(p0.nodeStorage, nil, p2))"}}},
		ens.Derived{Func: mvN + "MessageCounts.ValidateConsensusMessage", Name: "proposal-below-limit",
			Alts: [][]string{{"ne(0:MessageType, p1.Message.MsgType)"}, {"lt(p0.Proposal, p2.Proposal)"}}},
		ens.Derived{Func: mvN + "MessageCounts.ValidateConsensusMessage", Name: "prepare-below-limit",
			Alts: [][]string{{"ne(1:MessageType, p1.Message.MsgType)"}, {"lt(p0.Prepare, p2.Prepare)"}}},
		ens.Derived{Func: mvN + "MessageCounts.ValidateConsensusMessage", Name: "round-change-below-limit",
			Alts: [][]string{{"ne(3:MessageType, p1.Message.MsgType)"}, {"lt(p0.RoundChange, p2.RoundChange)"}}},
		ens.Derived{Func: mvN + "MessageCounts.ValidateConsensusMessage", Name: "commit-below-limit",
			Alts: [][]string{{"ne(2:MessageType, p1.Message.MsgType)"}, {"ne(1, len(p1.Signers))"}, {"lt(p0.Commit, p2.Commit)"}}},
		ens.Derived{Func: mvN + "MessageCounts.ValidateConsensusMessage", Name: "decided-below-limit",
			Alts: [][]string{{"ne(2:MessageType, p1.Message.MsgType)"}, {"le(len(p1.Signers), 1)"}, {"lt(p0.Decided, p2.Decided)"}}},
		ens.Derived{Func: mvM + "validConsensusSigners", Name: "one-signer-or-quorum-commit",
			Alts: [][]string{{"eq(1, len(p2.Signers))"},
				{"eq(2:MessageType, p2.Message.MsgType)", "T(ssv-spec/types.Share.HasQuorum(p1.Share, len(p2.Signers)))", "le(len(p2.Signers), len(p1.Share.Committee))"}}},
		ens.Derived{Func: mvM + "validConsensusSigners", Name: "proposal-from-leader",
			Alts: [][]string{{"ne(0:MessageType, p2.Message.MsgType)"}, {"ne(1, len(p2.Signers))"},
				{"eq(p2.Signers[0], ssv-spec/qbft.RoundRobinProposer(new:ssv-spec/qbft.State{Height: p2.Message.Height, Share: p1.Share}, p2.Message.Round))"}}},
	)
}

func init() {
	register(&Check{
		Prop:  "C09",
		Pkgs:  []string{"./..."},
		Setup: mvSetup,
		Explain: "The product rules × prior states × concurrent calls as behaviours, and RSA soundness, are NOT decided. Decided: every gossip rule named in the property is a fact on every accept path of the validator, and per-signer state is only touched after all of them, under the per-message-id lock. " +
			"(R1) validateP2PMessage accepts only after: envelope decoded when the fork epoch is active, non-empty, size bound, DecodeNetworkMsg ok, topic base name ∈ ValidatorTopicID(msg pubkey); validateSSVMessage only after: non-empty, size, domain, valid role, pubkey deserialises, share known, not liquidated, metadata present, attesting in the current epoch, decoded; " +
			"(R2) validateConsensusMessage's accept exit implies the consensus rule table (signature format, known QBFT type, signer shape: non-empty, single signer or quorum-sized commit ≤ committee, proposal signer == RoundRobinProposer, sorted, every signer non-zero ∈ committee, distinct; slot time window; round ≤ maxRound(role); estimated-round window; full data ⇒ hash == root; beacon duty; per signer: slot/round not decreasing, duty count, same round ⇒ count limits and no second proposal with other data, justifications; operator signature when a verifier is supplied); validatePartialSignatureMessage has its own table; " +
			"(R3) every per-signer state write (CreateSignerState, ResetSlot, ResetRound, ProposalData, Record*Message) is preceded by all of R2 including signature verification; the arguments of ResetSlot/ResetRound are the message's own slot and round; Reset* clear counts and proposal data; the validators are called with the message-id mutex held; " +
			"(R4) the signature verifier verifies exactly the bytes that are then decoded, with the operator id and signature taken from the same envelope, against the registered operator's key; " +
			"(R5) ValidatePubsubMessage maps nil error to Accept only, Reject() to Reject, everything else to Ignore.",
		Rules: []string{
			"C09-R1 Ens(validateP2PMessage / validateSSVMessage | accept) ⊇ envelope and validator-state tables",
			"C09-R2 Ens(validateConsensusMessage | accept), Ens(validatePartialSignatureMessage | accept) ⊇ rule tables; writes of Share.Quorum / PartialQuorum = 2f+1 / f+1 over len(own committee)",
			"C09-R3 facts-before(every signer-state write) ⊇ R2 + signature; argument shapes; resets only forward (partial-signature ResetSlot only for a strictly newer slot); lock held",
			"C09-R4 argument identity between verifySignature and DecodeNetworkMsg",
			"C09-R5 result mapping of ValidatePubsubMessage",
			"C09-R6 lock discipline: lock-table access inside one critical section; per-ID lock taken before the table lock is released; stateful validation under the per-ID lock",
		},
		Trusted: []string{"RSA verification (operator keys)", "go/types + go/ssa"},
		Assume:  []string{"observation (not armed): partial-signature messages have no slot-window check in this tree"},
		Run:     runC09,
	})
}

func runC09(c *core.Ctx) {
	mvf := mvPkg + ".(*messageValidator)."
	// ---------------- R1
	ensures(c, "C09-R1", mvf+"validateP2PMessage", "err=nil", []Req{
		{"non-empty", "ne(0, len(local:*))", "empty pubsub payloads are refused"},
		{"size-bound", "le(len*(local:*), 9227600)", "oversize payloads are refused before decoding"},
		{"decoded", "ok(ssv/network/commons.DecodeNetworkMsg(local:*))", ""},
		{"msg-nonnil", "nonnil(ssv/network/commons.DecodeNetworkMsg(local:*)#0)", ""},
		{"right-topic", "eq(ssv/network/commons.GetTopicBaseName(github.com/libp2p/go-libp2p-pubsub/pb.Message.GetTopic*(p1.Message)), ssv/network/commons.ValidatorTopicID(ssv-spec/types.MessageID.GetPubKey(ssv/network/commons.DecodeNetworkMsg(local:*)#0.MsgID))[_])", "a message must arrive on its validator's topic"},
		{"ssv-validated", "ok(" + mvM + "validateSSVMessage(p0, ssv/network/commons.DecodeNetworkMsg(local:*)#0, p2, *))", "the decoded message goes through SSV validation with the receive time and the signature verifier"},
	})
	// envelope handling when the fork is active
	atCalls(c, "C09-R1", mvf+"validateP2PMessage", "ssv/network/commons.DecodeSignedSSVMessage", []Req{
		{"fork-active", "lt(p0.netCfg.PermissionlessActivationEpoch, ssv/protocol/v2/blockchain/beacon.BeaconNetwork.EstimatedEpochAtSlot(*))", ""},
	})
	ensures(c, "C09-R1", mvf+"validateP2PMessage", "err=nil", []Req{
		{"envelope-decoded-when-fork-active", "or(envelope-decoded-when-fork-active)", "after the fork only signed envelopes are accepted"},
	})
	if f := fn(c, "C09-R1", mvf+"validateP2PMessage"); f != nil {
		for _, s := range callsIn(f, mvM+"validateSSVMessage") {
			v := s.Arg(c, 3).String()
			facts := s.Facts(c)
			_, forkActive := facts.Has("lt(p0.netCfg.PermissionlessActivationEpoch, *)")
			c.Decide(strings.Contains(v, "closure:"+mvM+"validateP2PMessage$1"), "C09-R1", "validateP2PMessage|verifier handed to SSV validation", c.P.Pos(s.Instr.Pos()), v, "the signature verifier built from the envelope is not the one passed on: "+v)
			_ = forkActive
		}
	}
	ensures(c, "C09-R1", mvf+"validateSSVMessage", "err=nil", []Req{
		{"non-empty", "ne(0, len(p1.Data))", ""},
		{"size", "le(len*(p1.Data), 8388608)", ""},
		{"domain", "T(bytes.Equal(ssv-spec/types.MessageID.GetDomain(p1.MsgID), p0.netCfg.Domain[:]))", "messages of other networks are refused"},
		{"valid-role", "T(" + mvM + "validRole(p0, ssv-spec/types.MessageID.GetRoleType(p1.MsgID)))", "unknown roles are refused (and later switches rely on it)"},
		{"pubkey", "ok(ssv/protocol/v2/types.DeserializeBLSPublicKey(ssv-spec/types.MessageID.GetPubKey(p1.MsgID)))", ""},
		{"decoded", "ok(ssv/protocol/v2/ssv/queue.DecodeSSVMessage(p1))", ""},
	})
	ensures(c, "C09-R1", mvf+"validateSSVMessage", "err=nil", []Req{
		{"validator-state-checked", "or(validator-state-checked)", "known, non-liquidated, active validator with metadata (whenever the node has a registry)"},
	})

	// ---------------- R2: consensus
	vcm := mvf + "validateConsensusMessage"
	role := "ssv-spec/types.MessageID.GetRoleType*(p3)"
	table := []Req{
		{"role-allows-consensus", "ne(5:BeaconRole, " + role + ")", "registration/exit roles have no consensus"},
		{"signature-format", "ok(" + mvM + "validateSignatureFormat(p0, p2.Signature))", ""},
		{"sig-size", "eq(96, len(p2.Signature))", ""},
		{"sig-non-zero", "ne(*[96]byte(p2.Signature), zero:[96]byte)", ""},
		{"known-qbft-type", "T(" + mvM + "validQBFTMsgType(p0, p2.Message.MsgType))", ""},
		{"signers-valid", "ok(" + mvM + "validConsensusSigners(p0, p1, p2))", ""},
		{"signers-non-empty", "ne(0, len(p2.Signers))", ""},
		{"signers-sorted", "T(golang.org/x/exp/slices.IsSorted(p2.Signers))", ""},
		{"signers-in-committee", "forall(ok(" + mvM + "commonSignerValidation(p0, p2.Signers[_], p1)))", ""},
		{"signers-non-zero", "forall(ne(0, p2.Signers[_]))", ""},
		{"signers-distinct", "forall(ne(p2.Signers[_], phi(0, p2.Signers[_])))", "with sorted signers, adjacent inequality means distinct"},
		{"not-early-not-late", "ok(" + mvM + "validateSlotTime(p0, p2.Message.Height, " + role + ", p4))", "messages outside the slot window of their role are refused"},
		{"not-early", "F(" + mvM + "earlyMessage(p0, p2.Message.Height, p4))", ""},
		{"not-late", "le(" + mvM + "lateMessage(p0, p2.Message.Height, " + role + ", p4), 0:Duration)", ""},
		{"round-max", "le(p2.Message.Round, " + mvM + "maxRound(p0, " + role + "))", "rounds above the role's maximum are refused"},
		{"round-min", "le(1:Round, p2.Message.Round)", ""},
		{"round-estimated-window", "le(p2.Message.Round, (phi(1:Round, " + mvM + "currentEstimatedRound(p0, time.Time.Sub(p4, *GetSlotStartTime(p0.netCfg.Beacon, p2.Message.Height)))) + 1:Round))", "rounds far ahead of the clock are refused"},
		{"full-data-matches-root", "or(full-data-matches-root)", "attached full data must hash to the root"},
		{"beacon-duty", "ok(" + mvM + "validateBeaconDuty(p0, " + role + ", p2.Message.Height, p1))", ""},
		{"signer-behaviour", "forall(ok(" + mvM + "validateSignerBehaviorConsensus(p0, " + mvM + "consensusState(p0, p3), p2.Signers[_], p1, p3, p2)))", "per-signer limits are checked for every signer"},
		{"signature-verified", "or(signature-verified)", "the operator signature is verified whenever a verifier is supplied"},
	}
	ensures(c, "C09-R2", vcm, "err=nil", table)
	ensures(c, "C09-R2", mvf+"validConsensusSigners", "err=nil", []Req{
		{"one-signer-or-quorum-commit", "or(one-signer-or-quorum-commit)", "more than one signer only on a quorum-sized commit not larger than the committee"},
		{"proposal-from-leader", "or(proposal-from-leader)", "a proposal must come from the round-robin leader of its height and round"},
	})
	ensures(c, "C09-R2", mvf+"commonSignerValidation", "err=nil", []Req{
		{"non-zero", "ne(0, p1)", ""},
		{"in-committee", "T(golang.org/x/exp/slices.ContainsFunc(p2.Share.Committee, " + mvM + "containsSignerFunc(p0, p1)))", ""},
	})
	ensures(c, "C09-R2", mvf+"containsSignerFunc$1", "ret=true", []Req{{"id-equal", "eq(p0.OperatorID, *)", "membership is by operator id"}})
	vsb := mvf + "validateSignerBehaviorConsensus"
	st := mvN + "ConsensusState.GetSignerState(p1, p2)"
	ensuresIf(c, "C09-R2", vsb, "err=nil", "signer has state", "nonnil("+st+")", []Req{
		{"slot-not-decreasing", "le(" + st + ".Slot, p5.Message.Height)", "a signer may not go back in slot"},
		{"round-not-decreasing", "or(round-not-decreasing)", "a signer may not go back in round within a slot"},
		{"duty-count", "ok(" + mvM + "validateDutyCount(p0, " + st + ", p4, *))", ""},
		{"per-round-count-limit", "or(per-round-count-limit)", "one message of each type per signer per round"},
		{"no-second-proposal-with-other-data", "or(no-second-proposal-with-other-data)", "equivocating proposals are refused"},
		{"justifications", "ok(" + mvM + "validateJustifications*(p0, p3, p5))", ""},
	})
	ensures(c, "C09-R2", vsb, "err=nil", []Req{{"justifications", "ok(" + mvM + "validateJustifications*(p0, p3, p5))", "justifications are validated for first-time signers too"}})
	ensures(c, "C09-R2", mvf+"validateJustifications", "err=nil", []Req{
		{"proposal-justified", "or(proposal-justified)", "proposal justifications are checked with the instance's own predicate"},
		{"prepare-justifications-decodable", "ok(ssv-spec/qbft.Message.GetPrepareJustifications(p2.Message))", ""},
		{"round-change-justifications-decodable", "ok(ssv-spec/qbft.Message.GetRoundChangeJustifications(p2.Message))", ""},
	})
	// count limits: the comparison shape per type (>= limit refuses)
	ensures(c, "C09-R2", mvPkg+".(*MessageCounts).ValidateConsensusMessage", "err=nil", []Req{
		{"proposal-below-limit", "or(proposal-below-limit)", "the count must be strictly below the limit"},
		{"prepare-below-limit", "or(prepare-below-limit)", ""},
		{"round-change-below-limit", "or(round-change-below-limit)", ""},
		{"commit-below-limit", "or(commit-below-limit)", ""},
		{"decided-below-limit", "or(decided-below-limit)", ""},
	})
	checkMaxCountsTable(c)

	// which messages get the full-data ↔ root check: a false answer means no data attached, or a type
	// that carries none (neither proposal nor round change nor a decided commit)
	if f := fn(c, "C09-R2", mvPkg+".(*messageValidator).hasFullData"); f != nil {
		a := c.E.Analyze(f)
		exits, _ := a.Exits("ret=false")
		for i, ex := range exits {
			_, empty := ex.Facts.Has("eq(0, len(p1.FullData))")
			_, np := ex.Facts.Has("ne(0:MessageType, p1.Message.MsgType)")
			_, nr := ex.Facts.Has("ne(3:MessageType, p1.Message.MsgType)")
			_, nd := ex.Facts.Has("F(" + mvM + "isDecidedMessage(p0, p1))")
			c.Decide(empty || (np && nr && nd), "C09-R2", fmt.Sprintf("hasFullData|false exit %d", i+1), c.P.Pos(ex.Ret.Pos()), "no data, or neither proposal / round change / decided",
				"hasFullData answers false for a message that may be a proposal, a round change or a decided commit with data attached: its full data would skip the root check")
		}
		c.Min("C09-R2", len(exits), 2, "false exits of hasFullData")
	}
	ensures(c, "C09-R2", mvPkg+".(*messageValidator).isDecidedMessage", "ret=false", []Req{
		{"not-a-multi-signer-commit", "ne(2:MessageType, p1.Message.MsgType) || le(len(p1.Signers), 1)", "a commit with more than one signer is a decided message"},
	})
	// "quorum-sized commit" is measured with Share.Quorum: every share the validator reads got it as 2f+1
	checkQuorumStores(c, "C09-R2")

	// ---------------- R2: partial signatures
	vps := mvf + "validatePartialSignatureMessage"
	ensures(c, "C09-R2", vps, "err=nil", []Req{
		{"known-type", "T(" + mvM + "validPartialSigMsgType(p0, p2.Message.Type))", ""},
		{"type-matches-role", "T(" + mvM + "partialSignatureTypeMatchesRole(p0, p2.Message.Type, ssv-spec/types.MessageID.GetRoleType(p3)))", ""},
		{"messages-valid", "ok(" + mvM + "validatePartialMessages(p0, p1, p2))", ""},
		{"signer-behaviour-checked", "or(signer-behaviour-checked)", "per-signer limits are checked whenever the signer has state"},
		{"signature-format", "ok(" + mvM + "validateSignatureFormat*(p0, p2.Signature))", ""},
		{"signature-verified", "or(signature-verified)", ""},
	})
	ensures(c, "C09-R2", mvf+"validatePartialMessages", "err=nil", []Req{
		{"signer", "ok(" + mvM + "commonSignerValidation(p0, p2.Signer, p1))", ""},
		{"non-empty", "ne(0, len(p2.Message.Messages))", ""},
		{"distinct-roots", "forall(F(make:map[[32]byte]struct{}[p2.Message.Messages[_].SigningRoot]#1))", ""},
		{"inner-signer-equals-outer", "forall(eq(p2.Message.Messages[_].Signer, p2.Signer))", ""},
		{"inner-signature-format", "forall(ok(" + mvM + "validateSignatureFormat(p0, p2.Message.Messages[_].PartialSignature)))", ""},
	})

	// ---------------- R3: state writes
	writers := []struct{ callee string }{
		{mvN + "ConsensusState.CreateSignerState"}, {mvN + "SignerState.ResetSlot"}, {mvN + "SignerState.ResetRound"}, {mvN + "MessageCounts.RecordConsensusMessage"},
	}
	n := 0
	for _, w := range writers {
		n += atCalls(c, "C09-R3", vcm, w.callee, filterReqs(table, "signers-valid", "not-early-not-late", "round-max", "round-estimated-window", "full-data-matches-root", "beacon-duty", "signer-behaviour", "signature-verified", "known-qbft-type", "signature-format"))
	}
	n += atStores(c, "C09-R3", vcm, mvPkg+".SignerState.ProposalData", filterReqs(table, "signers-valid", "not-early-not-late", "signer-behaviour", "signature-verified"))
	c.Min("C09-R3", n, 5, "signer-state writes in validateConsensusMessage")
	ptable := []Req{
		{"known-type", "T(" + mvM + "validPartialSigMsgType(p0, p2.Message.Type))", "state must not be touched by an invalid message"},
		{"messages-valid", "ok(" + mvM + "validatePartialMessages(p0, p1, p2))", ""},
		{"signature-format", "ok(" + mvM + "validateSignatureFormat*(p0, p2.Signature))", ""},
		{"signature-verified", "or(signature-verified)", "an unverified message must not poison the signer state"},
	}
	n = 0
	for _, w := range []string{mvN + "ConsensusState.CreateSignerState", mvN + "SignerState.ResetSlot", mvN + "MessageCounts.RecordPartialSignatureMessage"} {
		n += atCalls(c, "C09-R3", vps, w, ptable)
	}
	c.Min("C09-R3", n, 3, "signer-state writes in validatePartialSignatureMessage")
	// the signer state is shared with the consensus validator: a partial-signature message may
	// reset it only when it opens a strictly newer slot (a same-slot reset would erase the signer's
	// round, per-round counts and remembered proposal, re-opening every consensus limit of the slot)
	k09 := atCalls(c, "C09-R3", vps, mvN+"SignerState.ResetSlot", []Req{{"newer-slot", "lt(*.Slot, p2.Message.Slot)", "the slot is only ever advanced; a partial-signature message for the signer's current slot must not reset the consensus limits"}})
	c.Min("C09-R3", k09, 1, "ResetSlot in validatePartialSignatureMessage")
	if f := fn(c, "C09-R3", vps); f != nil {
		for _, s := range callsIn(f, mvN+"SignerState.ResetSlot") {
			got := s.Call(c).String()
			c.Decide(ens.Glob(mvN+"SignerState.ResetSlot(*, p2.Message.Slot, 1:Round, *)", got), "C09-R3", "validatePartialSignatureMessage|ResetSlot(msgSlot, FirstRound, …)", c.P.Pos(s.Instr.Pos()), clip(got),
				"the signer state is reset to "+clip(got)+": it must remember the message's own slot and the first round")
		}
	}
	// who else writes signer state
	for _, callee := range []string{"ConsensusState.CreateSignerState", "SignerState.ResetSlot", "SignerState.ResetRound", "MessageCounts.RecordConsensusMessage", "MessageCounts.RecordPartialSignatureMessage"} {
		parts := strings.SplitN(callee, ".", 2)
		if tf, err := c.P.LookupFunc(mvPkg + ".(*" + parts[0] + ")." + parts[1]); err == nil {
			whoMayCall(c, "C09-R3", callee, mapOf(tf), nil, map[string]string{
				mvM + "validateConsensusMessage":        "after all consensus rules",
				mvM + "validatePartialSignatureMessage": "after all partial-signature rules",
			})
		} else {
			c.Undischarged("C09-R3", "anchor:"+callee, err.Error())
		}
	}
	// argument shapes of the resets
	if f := fn(c, "C09-R3", vcm); f != nil {
		a := c.E.Analyze(f)
		for _, s := range callsIn(f, mvN+"SignerState.ResetSlot") {
			got := a.D.Call(s.Instr).String()
			c.Decide(ens.Glob(mvN+"SignerState.ResetSlot(*, p2.Message.Height, p2.Message.Round, *)", got), "C09-R3", "validateConsensusMessage|ResetSlot(msgSlot, msgRound, …)", c.P.Pos(s.Instr.Pos()), clip(got),
				"the signer state is reset to "+clip(got)+": it must remember the message's own slot AND round, or the per-round limits compare against the wrong round")
		}
		for _, s := range callsIn(f, mvN+"SignerState.ResetRound") {
			got := a.D.Call(s.Instr).String()
			c.Decide(ens.Glob(mvN+"SignerState.ResetRound(*, p2.Message.Round)", got), "C09-R3", "validateConsensusMessage|ResetRound(msgRound)", c.P.Pos(s.Instr.Pos()), clip(got), "the signer round is reset to something other than the message's round: "+clip(got))
		}
		k := atCalls(c, "C09-R3", vcm, mvN+"SignerState.ResetSlot", []Req{{"newer-slot", "lt(*.Slot, p2.Message.Height)", "the slot is only ever advanced"}})
		k += atCalls(c, "C09-R3", vcm, mvN+"SignerState.ResetRound", []Req{{"same-slot", "eq(p2.Message.Height, *.Slot)", ""}, {"newer-round", "lt(*.Round, p2.Message.Round)", "the round is only ever advanced"}})
		c.Min("C09-R3", k, 2, "reset sites")
	}
	checkResets(c, "C09-R3")
	// lock held around the validators
	vss := mvf + "validateSSVMessage"
	for _, callee := range []string{mvM + "validateConsensusMessage", mvM + "validatePartialSignatureMessage"} {
		k := atCalls(c, "C09-R3", vss, callee, []Req{
			{"message-lock-held", "called(sync.Mutex.Lock(phi(*p0.validationLocks[*]*)))", "reads and writes of signer state happen under the per-message-id mutex"},
			{"unlock-deferred", "deferred(sync.Mutex.Unlock(phi(*p0.validationLocks[*]*)))", ""},
		})
		c.Min("C09-R3", k, 1, callee+" call in validateSSVMessage")
	}

	// ---------------- R4
	if f := fn(c, "C09-R4", mvf+"validateP2PMessage"); f != nil {
		vs := callsIn(f, mvM+"verifySignature")
		dn := callsIn(f, "ssv/network/commons.DecodeNetworkMsg")
		if len(vs) != 1 || len(dn) != 1 {
			c.Undischarged("C09-R4", "validateP2PMessage|verify/decode sites", fmt.Sprintf("expected one verifySignature and one DecodeNetworkMsg call, found %d and %d", len(vs), len(dn)))
		} else {
			verified := vs[0].Arg(c, 1).String()
			decoded := dn[0].Arg(c, 0).String()
			c.Decide(verified == decoded, "C09-R4", "validateP2PMessage|verified bytes == decoded bytes", c.P.Pos(vs[0].Instr.Pos()), verified, "the signature is verified over "+verified+" but the message is decoded from "+decoded)
			call := vs[0].Call(c).String()
			c.Decide(ens.Glob(mvM+"verifySignature(p0, *, ssv/network/commons.DecodeSignedSSVMessage(*)#1, ssv/network/commons.DecodeSignedSSVMessage(*)#2)", call), "C09-R4", "validateP2PMessage|operator id and signature from the same envelope", c.P.Pos(vs[0].Instr.Pos()), clip(call), "verifySignature is not given the envelope's own operator id and signature: "+clip(call))
		}
	}
	ensures(c, "C09-R4", mvf+"verifySignature", "err=nil", []Req{
		{"rsa-verify", "ok(ssv/operator/keys.OperatorPublicKey.Verify(*, p1, p3))", "the payload is verified with the signature under the operator's key"},
	})
	ensures(c, "C09-R4", mvf+"verifySignature", "err=nil", []Req{
		{"operator-registered", "or(operator-registered)", "unknown operators are refused"},
	})

	// ---------------- R5
	checkResultMapping(c)
	// ---------------- R6: per-signer limits hold under concurrent validation only if one message ID is validated at a time
	checkValidationLocks(c, "C09-R6")
}

func filterReqs(all []Req, names ...string) []Req {
	var out []Req
	for _, r := range all {
		for _, n := range names {
			if r.Name == n {
				out = append(out, r)
			}
		}
	}
	return out
}

// checkResets: SignerState.ResetSlot / ResetRound clear what the per-round
// rules compare against.
func checkResets(c *core.Ctx, rule string) {
	ensures(c, rule, mvPkg+".(*SignerState).ResetRound", "any", []Req{
		{"round", "stored(p0.Round, p1)", ""},
		{"counts-cleared", "stored(p0.MessageCounts, zero:" + mvN + "MessageCounts)", "a new round starts with empty counts"},
		{"proposal-data-cleared", "stored(p0.ProposalData, nil)", "proposal data is per round: keeping it makes the next round's legitimate proposal look like an equivocation"},
	})
	ensures(c, rule, mvPkg+".(*SignerState).ResetSlot", "any", []Req{
		{"slot", "stored(p0.Slot, p1)", ""},
		{"round", "stored(p0.Round, p2)", ""},
		{"counts-cleared", "stored(p0.MessageCounts, zero:" + mvN + "MessageCounts)", ""},
		{"proposal-data-cleared", "stored(p0.ProposalData, nil)", ""},
	})
}

// checkMaxCountsTable: the per-round limits literal.
func checkMaxCountsTable(c *core.Ctx) {
	f := fn(c, "C09-R2", mvPkg+".maxMessageCounts")
	if f == nil {
		return
	}
	a := c.E.Analyze(f)
	exits, _ := a.Exits("any")
	if len(exits) != 1 {
		c.Undischarged("C09-R2", "maxMessageCounts|shape", "expected one return")
		return
	}
	got := a.D.D(exits[0].Ret.Results[0]).String()
	want := "new:" + mvN + "MessageCounts{Commit: 1, Decided: " + mvN + "maxDecidedCount(p0), PostConsensus: 1, PreConsensus: 1, Prepare: 1, Proposal: 1, RoundChange: 1}"
	c.Decide(got == want, "C09-R2", "maxMessageCounts|one per type per round", c.P.Pos(exits[0].Ret.Pos()), got, "per-round limits are "+got+", the rule table says "+want)
}

// checkResultMapping: in ValidatePubsubMessage, ValidationAccept is returned
// only on the err==nil path (or the self-accept bypass keyed on the own peer
// id); ValidationReject only under valErr.Reject().
func checkResultMapping(c *core.Ctx) {
	f := fn(c, "C09-R5", mvPkg+".(*messageValidator).ValidatePubsubMessage")
	if f == nil {
		return
	}
	a := c.E.Analyze(f)
	exits, _ := a.Exits("any")
	vp := mvM + "validateP2PMessage(p0, p3, time.Now*())#2"
	nAcc, nRej := 0, 0
	for _, ex := range exits {
		cst := a.D.D(ex.Ret.Results[0]).String()
		switch {
		case strings.HasPrefix(cst, "0:"): // ValidationAccept
			nAcc++
			_, okNil := ex.Facts.Has("isnil(" + vp + ")")
			_, self := ex.Facts.Has("eq(p0.selfPID, p2)")
			_, selfOn := ex.Facts.Has("T(p0.selfAccept)")
			c.Decide(okNil || (self && selfOn), "C09-R5", "ValidatePubsubMessage|accept only without error", c.P.Pos(ex.Ret.Pos()), "accept under err==nil (or own message)", "ValidationAccept is returned on a path where validation reported an error")
		case strings.HasPrefix(cst, "1:"): // ValidationReject
			nRej++
			_, rej := ex.Facts.Has("T(" + mvN + "Error.Reject(*))")
			c.Decide(rej, "C09-R5", "ValidatePubsubMessage|reject only for reject-class errors", c.P.Pos(ex.Ret.Pos()), "under Reject()", "ValidationReject is returned for an error that is not reject-class")
		}
	}
	c.Decide(nAcc == 2 && nRej == 1, "C09-R5", "ValidatePubsubMessage|result sites", c.P.Pos(f.Pos()), "2 accept sites, 1 reject site", fmt.Sprintf("%d accept and %d reject sites", nAcc, nRej))
}

var _ = ast.Inspect
var _ = constant.Bool
var _ types.Type

// checkValidationLocks: the per-message-ID lock table of the message validator.
// (L1) every access to the validationLocks map lies inside ONE critical section of
// validationMutex: the mutex is locked and has not been unlocked on any path to the
// access (an unlock between the lookup and the insert lets two validations of a new
// ID race on the plain Go map — a fatal, unrecoverable runtime error — and install
// two different locks for one ID);
// (L2) the per-ID lock is taken before validationMutex is released;
// (L3) the stateful validation of the message runs with the per-ID lock held until return.
func checkValidationLocks(c *core.Ctx, rule string) {
	f := fn(c, rule, mvPkg+".(*messageValidator).validateSSVMessage")
	if f == nil {
		return
	}
	fv, err := c.P.LookupField(mvPkg + ".messageValidator.validationLocks")
	if err != nil {
		c.Undischarged(rule, "anchor:messageValidator.validationLocks", err.Error())
		return
	}
	isLocksMap := func(v ssa.Value) bool {
		ld, ok := v.(*ssa.UnOp)
		if !ok || ld.Op != token.MUL {
			return false
		}
		fa, ok := ld.X.(*ssa.FieldAddr)
		return ok && fieldVar(fa) == fv
	}
	n := 0
	for _, g := range funcsWithAnon(f) {
		a := c.E.Analyze(g)
		for _, b := range g.Blocks {
			for _, in := range b.Instrs {
				what := ""
				switch x := in.(type) {
				case *ssa.Lookup:
					if isLocksMap(x.X) {
						what = "lookup"
					}
				case *ssa.MapUpdate:
					if isLocksMap(x.Map) {
						what = "insert"
					}
				}
				if what == "" {
					continue
				}
				n++
				facts := a.FactsAt(in)
				_, locked := facts.Has("called(sync.*Mutex.Lock(p0.validationMutex))")
				_, unlocked := facts.Has("called(sync.*Mutex.*Unlock(p0.validationMutex))")
				c.Decide(locked && !unlocked, rule, fmt.Sprintf("validateSSVMessage|validationLocks %s inside one critical section", what), c.P.Pos(in.Pos()),
					"validationMutex locked and not released before the "+what,
					fmt.Sprintf("the %s of validationLocks is not inside one critical section of validationMutex (locked=%v, already unlocked on every path=%v): concurrent validations of a new message ID race on the map and can install two locks for one ID", what, locked, unlocked))
			}
		}
	}
	c.Min(rule, n, 2, "accesses to validationLocks in validateSSVMessage")
	perID := "phi(new:sync.Mutex, p0.validationLocks[*]#0)"
	k := atCalls(c, rule, mvPkg+".(*messageValidator).validateSSVMessage", "sync.Mutex.Unlock", []Req{
		{"per-id-lock-taken-first", "called(sync.Mutex.Lock(" + perID + "))", "the per-ID lock must be held before the table lock is released"},
	})
	c.Min(rule, k, 1, "release of validationMutex")
	for _, callee := range []string{mvM + "validateConsensusMessage", mvM + "validatePartialSignatureMessage"} {
		atCalls(c, rule, mvPkg+".(*messageValidator).validateSSVMessage", callee, []Req{
			{"per-id-lock-held", "called(sync.Mutex.Lock(" + perID + "))", "per-signer state is read and updated under the message ID's lock"},
			{"held-until-return", "deferred(sync.Mutex.Unlock(" + perID + "))", ""},
		})
	}
}
