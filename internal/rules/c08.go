package rules

import (
	"fmt"
	"go/ast"
	"go/constant"
	"go/token"
	"go/types"
	"sort"
	"strings"

	"golang.org/x/tools/go/ssa"

	"verif/ssvcheck/internal/core"
	"verif/ssvcheck/internal/ens"
)

// packages whose every function is network-facing decoding / validation code
var c08Pkgs = []string{
	ssv + "message/validation",
	ssv + "network/commons",
	ssv + "protocol/v2/ssv/queue",
	ssv + "network/records",
}

func init() {
	register(&Check{
		Prop:  "C08",
		Pkgs:  []string{"./..."},
		Setup: mvSetup,
		Explain: "Hangs, allocation bounds inside generated SSZ/JSON decoders, nil dereferences in general and bounds of variable indexing are NOT decided (no sound static bound in reach; check_bce cannot be used on these packages). Decided: every *enumerable* crash site in the network-facing packages (message/validation, network/commons, protocol/v2/ssv/queue, network/records) and in the ssv-spec leader function carries an obligation that is discharged from the code on every run, and a new site without obligation is reported. " +
			"(R1a) explicit panic(..) calls: the enum-default panics (maxRound, waitAfterSlotStart, partialSignatureTypeMatchesRole over roles; the four MessageCounts switches over message types) are discharged by table agreement — the case set of the validator that runs first (validRole / validQBFTMsgType / validPartialSigMsgType) is a subset of the panicking switch's case set — plus the fact that the validator's success dominates the call; RecordConsensusMessage's 'expected signers' by the non-empty-signers fact; the qbftConfig 'should not be called' panics by call-graph reachability (only VerifySignatures and GetSignatureDomainType of qbft.IConfig are invoked under instance.IsProposalJustification); " +
			"(R1b) implicit sites: slice→array conversions and constant slicing/indexing are discharged by a dominating length fact at the site; unchecked type assertions on the decoded body by agreement between the MsgType switch in validateSSVMessage and the body type DecodeSSVMessage builds per MsgType; integer % and / with a non-constant divisor and the signed index of specqbft.RoundRobinProposer by the round/height range facts at its only validation call site (F2 fix); " +
			"(R2) size limits precede decoding (pubsub payload, SSV data, per-type limits).",
		Rules: []string{
			"C08-R1a every explicit panic site in the four packages ∈ obligation table; table agreement cases(validator) ⊆ cases(switch); validator dominates use; IConfig methods reachable ⊆ non-panicking ones",
			"C08-R1b every implicit site (array conversion, const slice/index, unchecked assert, non-const divisor) ∈ obligation table with a dominating guard fact",
			"C08-R1c a slice indexed by the loop variable of a range over another slice needs a fact relating the two lengths",
			"C08-R2 facts-before(decoders) ∋ size bounds",
			"C08-R3 lock discipline of the per-message-ID lock table (a plain map): every access inside one critical section of validationMutex",
		},
		Trusted: []string{"go/types + go/ssa", "generated SSZ decoders and encoding/json do not panic on malformed input", "registry invariant: a stored share has a non-empty committee (C11-R1 validateOperators)"},
		Run:     runC08,
	})
}

type crashSite struct {
	fn    *ssa.Function
	ins   ssa.Instruction
	kind  string // panic | assert | toarray | constslice | constindex | divisor
	desc  string
	key   string // stable key: function|kind#ordinal
	extra ssa.Value
}

func enumerateCrashSites(c *core.Ctx, funcs []*ssa.Function) []crashSite {
	var out []crashSite
	ord := map[string]int{}
	add := func(f *ssa.Function, in ssa.Instruction, kind, desc string, v ssa.Value) {
		k := ens.SSAFuncName(f) + "|" + kind
		ord[k]++
		out = append(out, crashSite{f, in, kind, desc, fmt.Sprintf("%s#%d", k, ord[k]), v})
	}
	for _, f := range funcs {
		a := c.E.Analyze(f)
		for _, b := range f.Blocks {
			for _, in := range b.Instrs {
				switch x := in.(type) {
				case *ssa.Panic:
					if d := a.D.D(x.X).String(); d != "\"blocking select matched no case\"" { // synthetic, emitted by go/ssa for select{} lowering
						add(f, in, "panic", d, nil)
					}
				case *ssa.TypeAssert:
					if !x.CommaOk {
						// type switches and x.(T) with ok are CommaOk; plain assertions panic
						add(f, in, "assert", a.D.D(x).String(), x.X)
					}
				case *ssa.SliceToArrayPointer:
					add(f, in, "toarray", a.D.D(x).String(), x.X)
				case *ssa.Slice:
					if _, isStr := x.X.Type().Underlying().(*types.Basic); isStr {
						// string slicing with constant bounds also panics
					}
					lo, hi := constInt(x.Low), constInt(x.High)
					if (lo > 0 || hi > 0) && !isArrayPtr(x.X) {
						add(f, in, "constslice", a.D.D(x).String(), x.X)
					}
				case *ssa.IndexAddr:
					if other := rangeIndexOfOther(x.Index, x.X); other != nil {
						add(f, in, "crossindex", a.D.D(x).String()+" with the index ranging over "+a.D.D(other).String(), other)
					}
					if ci := constInt(x.Index); ci >= 0 && !isArrayPtr(x.X) {
						if _, ok := x.Index.(*ssa.Const); ok {
							add(f, in, "constindex", a.D.D(x).String(), x.X)
						}
					}
				case *ssa.BinOp:
					if (x.Op == token.REM || x.Op == token.QUO) && isInteger(x.Y.Type()) {
						if _, ok := x.Y.(*ssa.Const); !ok {
							add(f, in, "divisor", a.D.D(x).String(), x.Y)
						}
					}
				}
			}
		}
	}
	return out
}

// rangeIndexOfOther: idx is the index variable of a `for i := range X` loop
// (go/ssa's rangeindex lowering: i = φ+1, guarded by i < len(X)) and base is a
// different slice than X. Returns X, or nil.
func rangeIndexOfOther(idx, base ssa.Value) ssa.Value {
	bo, ok := idx.(*ssa.BinOp)
	if !ok || bo.Op != token.ADD || bo.Block() == nil || bo.Block().Comment != "rangeindex.loop" {
		return nil
	}
	blk := bo.Block()
	iff, ok := blk.Instrs[len(blk.Instrs)-1].(*ssa.If)
	if !ok {
		return nil
	}
	cond, ok := iff.Cond.(*ssa.BinOp)
	if !ok || cond.Op != token.LSS || cond.X != idx {
		return nil
	}
	call, ok := cond.Y.(*ssa.Call)
	if !ok || len(call.Call.Args) != 1 {
		return nil
	}
	if b, ok := call.Call.Value.(*ssa.Builtin); !ok || b.Name() != "len" {
		return nil
	}
	ranged := call.Call.Args[0]
	if sameSlice(ranged, base) {
		return nil
	}
	if _, isSlice := base.Type().Underlying().(*types.Slice); !isSlice {
		return nil // arrays have a static length; not a peer-controlled bound
	}
	return ranged
}

func sameSlice(a, b ssa.Value) bool {
	if a == b {
		return true
	}
	// two loads of the same address / field with no intervening consideration: compare structurally
	ua, ok1 := a.(*ssa.UnOp)
	ub, ok2 := b.(*ssa.UnOp)
	if ok1 && ok2 && ua.Op == token.MUL && ub.Op == token.MUL {
		fa, ok1 := ua.X.(*ssa.FieldAddr)
		fb, ok2 := ub.X.(*ssa.FieldAddr)
		if ok1 && ok2 && fa.Field == fb.Field && fa.X == fb.X {
			return true
		}
		return ua.X == ub.X
	}
	return false
}

func constInt(v ssa.Value) int64 {
	if c, ok := v.(*ssa.Const); ok && c.Value != nil && c.Value.Kind() == constant.Int {
		if i, ok := constant.Int64Val(c.Value); ok {
			return i
		}
	}
	return -1
}

func isArrayPtr(v ssa.Value) bool {
	if p, ok := v.Type().Underlying().(*types.Pointer); ok {
		_, isArr := p.Elem().Underlying().(*types.Array)
		return isArr
	}
	return false
}

func isInteger(t types.Type) bool {
	b, ok := t.Underlying().(*types.Basic)
	return ok && b.Info()&types.IsInteger != 0
}

// switchCases returns the constant case values of the first switch over an
// integer/enum tag in the named function.
func switchCases(c *core.Ctx, pkgPath, fnName string) (map[string]bool, bool) {
	pk := c.P.Pkg(pkgPath)
	if pk == nil {
		return nil, false
	}
	for _, file := range pk.Syntax {
		for _, d := range file.Decls {
			fd, ok := d.(*ast.FuncDecl)
			if !ok || fd.Name.Name != fnName || fd.Body == nil {
				continue
			}
			var res map[string]bool
			ast.Inspect(fd.Body, func(n ast.Node) bool {
				sw, ok := n.(*ast.SwitchStmt)
				if !ok || res != nil || sw.Tag == nil {
					return true
				}
				res = map[string]bool{}
				for _, st := range sw.Body.List {
					for _, e := range st.(*ast.CaseClause).List {
						if tv, ok := pk.TypesInfo.Types[e]; ok && tv.Value != nil {
							res[tv.Value.ExactString()] = true
						}
					}
				}
				return false
			})
			if res != nil {
				return res, true
			}
		}
	}
	return nil, false
}

func subset(a, b map[string]bool) (bool, string) {
	for k := range a {
		if !b[k] {
			return false, k
		}
	}
	return true, ""
}

func keysSorted(m map[string]bool) string {
	var k []string
	for x := range m {
		k = append(k, x)
	}
	sort.Strings(k)
	return strings.Join(k, ",")
}

func runC08(c *core.Ctx) {
	var funcs []*ssa.Function
	for _, p := range c08Pkgs {
		funcs = append(funcs, c.P.SourceFuncs(p)...)
	}
	if rr, err := c.P.Func(spec + "qbft.RoundRobinProposer"); err == nil {
		funcs = append(funcs, rr)
	} else {
		c.Undischarged("C08-R1b", "anchor:RoundRobinProposer", err.Error())
	}
	// premise of the argued-safe entry for commons.ECDSAPubFromInterface: it is reached only from
	// DiscV5Service.Node, and nothing in the node calls Service.Node (an unused interface method),
	// so no peer-supplied identity key reaches the unchecked assertion.
	if m, err := c.P.LookupFunc(ssv + "network/commons.ECDSAPubFromInterface"); err == nil {
		whoMayCall(c, "C08-R1b", "commons.ECDSAPubFromInterface", mapOf(m), nil, map[string]string{
			"ssv/network/discovery.DiscV5Service.Node": "itself unreachable (next obligation)",
		})
	} else {
		c.Undischarged("C08-R1b", "anchor:ECDSAPubFromInterface", err.Error())
	}
	if t, names := methodTargets(c, "C08-R1b", ssv+"network/discovery.NodeProvider.Node"); t != nil {
		sites := whoMayCall(c, "C08-R1b", "discovery.NodeProvider.Node", t, names, map[string]string{})
		c.Decide(len(sites) == 0, "C08-R1b", "discovery.NodeProvider.Node|no caller", "", "no call site in the node", "discovery.NodeProvider.Node now has callers: a peer's identity key reaches the unchecked key-type assertion in ECDSAPubFromInterface")
	}
	// the lock table is a plain Go map: a concurrent access is a fatal runtime error no recover() catches
	checkValidationLocks(c, "C08-R3")
	// the operator key cache holds only keys that parsed: a cached nil is dereferenced by the next message
	k08 := atCalls(c, "C08-R3", mvPkg+".(*messageValidator).verifySignature", "github.com/cornelk/hashmap.Map.Set", []Req{
		{"key-parsed", "ok(ssv/operator/keys.PublicKeyFromString(*))", "an operator key that failed to parse must not be cached: the next envelope naming that operator calls Verify on nil"},
		{"operator-found", "T(ssv/registry/storage.Operators.GetOperatorData(p0.nodeStorage, nil, p2)#1)", ""},
	})
	c.Min("C08-R3", k08, 1, "operator key cache insertions")
	checkDutyStoreLocks(c, "C08-R3")
	c.Count("functions_scanned_for_crash_sites", len(funcs))
	sites := enumerateCrashSites(c, funcs)
	c.Count("crash_sites", len(sites))

	// ---------------- table agreement for the enum-default panics
	type enumRule struct{ validator, user string }
	enumRules := []enumRule{
		{"validRole", "maxRound"}, {"validRole", "waitAfterSlotStart"}, {"validRole", "partialSignatureTypeMatchesRole"},
		{"validQBFTMsgType", "ValidateConsensusMessage"}, {"validQBFTMsgType", "RecordConsensusMessage"},
		{"validPartialSigMsgType", "ValidatePartialSignatureMessage"}, {"validPartialSigMsgType", "RecordPartialSignatureMessage"},
	}
	enumOK := map[string]bool{}
	for _, r := range enumRules {
		vc, ok1 := switchCases(c, mvPkg, r.validator)
		uc, ok2 := switchCases(c, mvPkg, r.user)
		if !ok1 || !ok2 {
			c.Undischarged("C08-R1a", "table "+r.validator+" ⊆ "+r.user, "switch not found")
			continue
		}
		ok, missing := subset(vc, uc)
		enumOK[r.user] = ok
		c.Decide(ok, "C08-R1a", "table "+r.validator+" ⊆ "+r.user, "", "cases("+r.validator+")={"+keysSorted(vc)+"} ⊆ cases("+r.user+")",
			fmt.Sprintf("%s accepts value %s which %s does not handle: its default branch panics on network input", r.validator, missing, r.user))
	}
	// the validators dominate the uses
	mvf := mvPkg + ".(*messageValidator)."
	for _, callee := range []string{mvM + "validateConsensusMessage", mvM + "validatePartialSignatureMessage"} {
		atCalls(c, "C08-R1a", mvf+"validateSSVMessage", callee, []Req{
			{"role-validated-first", "T(" + mvM + "validRole(p0, ssv-spec/types.MessageID.GetRoleType(p1.MsgID)))", "role switches below panic on unknown roles"},
		})
	}
	atCalls(c, "C08-R1a", mvf+"validateConsensusMessage", mvM+"maxRound", []Req{
		{"consensus-role", "ne(5:BeaconRole, ssv-spec/types.MessageID.GetRoleType*(p3))", ""},
	})
	for _, callee := range []string{mvN + "MessageCounts.RecordConsensusMessage", mvM + "validateSignerBehaviorConsensus"} {
		atCalls(c, "C08-R1a", mvf+"validateConsensusMessage", callee, []Req{
			{"qbft-type-validated-first", "T(" + mvM + "validQBFTMsgType(p0, p2.Message.MsgType))", "message-type switches below panic on unknown types"},
			{"signers-non-empty", "ne(0, len(p2.Signers))", "RecordConsensusMessage panics on an empty signer list"},
		})
	}
	for _, callee := range []string{mvN + "MessageCounts.RecordPartialSignatureMessage", mvM + "validateSignerBehaviorPartial", mvM + "partialSignatureTypeMatchesRole"} {
		atCalls(c, "C08-R1a", mvf+"validatePartialSignatureMessage", callee, []Req{
			{"partial-type-validated-first", "T(" + mvM + "validPartialSigMsgType(p0, p2.Message.Type))", "partial-signature type switches below panic on unknown types"},
		})
	}
	// who calls the panicking switches
	for callee, allow := range map[string]map[string]string{
		"messageValidator.maxRound":                        {mvM + "validateConsensusMessage": "after validRole and the consensus-role check"},
		"messageValidator.partialSignatureTypeMatchesRole": {mvM + "validatePartialSignatureMessage": "after validRole"},
		"MessageCounts.ValidateConsensusMessage":           {mvM + "validateSignerBehaviorConsensus": "after validQBFTMsgType"},
		"MessageCounts.ValidatePartialSignatureMessage":    {mvM + "validateSignerBehaviorPartial": "after validPartialSigMsgType"},
	} {
		parts := strings.SplitN(callee, ".", 2)
		if tf, err := c.P.LookupFunc(mvPkg + ".(*" + parts[0] + ")." + parts[1]); err == nil {
			whoMayCall(c, "C08-R1a", callee, mapOf(tf), nil, allow)
		} else {
			c.Undischarged("C08-R1a", "anchor:"+callee, err.Error())
		}
	}
	// IConfig methods invoked under IsProposalJustification
	okCfg := checkConfigReach(c)

	// ---------------- every site must have an obligation
	nPanic, nImplicit := 0, 0
	for _, s := range sites {
		fnName := ens.SSAFuncName(s.fn)
		pos := c.P.Pos(s.ins.Pos())
		a := c.E.Analyze(s.fn)
		facts := a.FactsAt(s.ins)
		switch s.kind {
		case "panic":
			nPanic++
			short := fnName[strings.LastIndex(fnName, ".")+1:]
			switch {
			case enumOK[short]:
				c.OK("C08-R1a", s.key, pos, "enum-default panic: validator table ⊆ this switch, validator dominates the call")
			case strings.HasPrefix(fnName, mvN+"qbftConfig."):
				c.Decide(okCfg, "C08-R1a", s.key, pos, "not reachable: only non-panicking IConfig methods are invoked under IsProposalJustification", "a panicking qbftConfig method is reachable from proposal-justification validation")
			case fnName == mvN+"MessageCounts.RecordConsensusMessage" && strings.Contains(s.desc, "expected signers"):
				c.OK("C08-R1a", s.key, pos, "signers non-empty is a fact at the only call site (checked above)")
			default:
				if _, known := enumOK[short]; known {
					c.Fail("C08-R1a", s.key, pos, "enum-default panic whose validator table is not a subset of its cases (see table obligation)")
				} else {
					c.Fail("C08-R1a", s.key, pos, "explicit panic("+clip(s.desc)+") in network-facing code without a discharged obligation: every panic reachable from validation or decoding must be shown unreachable for network input")
				}
			}
		default:
			nImplicit++
			dischargeImplicit(c, s, fnName, pos, facts, a)
		}
	}
	c.Min("C08-R1a", nPanic, 14, "explicit panic sites")
	c.Min("C08-R1b", nImplicit, 8, "implicit crash sites")

	// ---------------- R2
	atCalls(c, "C08-R2", mvf+"validateP2PMessage", "ssv/network/commons.DecodeNetworkMsg", []Req{
		{"size-bound-first", "le(len(local:*), 9227600)", "oversize payloads are refused before decoding"},
	})
	atCalls(c, "C08-R2", mvf+"validateSSVMessage", "ssv/protocol/v2/ssv/queue.DecodeSSVMessage", []Req{
		{"size-bound-first", "le(len(p1.Data), 8388608)", "oversize SSV data is refused before decoding"},
	})
	atCalls(c, "C08-R2", mvf+"validateSSVMessage", mvM+"validatePartialSignatureMessage", []Req{
		{"partial-size", "le(len(*.Data), 1952)", "partial-signature messages have their own size limit"},
	})
}

// checkConfigReach: the methods of qbft.IConfig invoked in the functions
// reachable (static calls) from instance.IsProposalJustification.
func checkConfigReach(c *core.Ctx) bool {
	root, err := c.P.Func(instPkg + ".IsProposalJustification")
	if err != nil {
		c.Undischarged("C08-R1a", "anchor:IsProposalJustification", err.Error())
		return false
	}
	seen := map[*ssa.Function]bool{}
	invoked := map[string]bool{}
	var walk func(f *ssa.Function)
	walk = func(f *ssa.Function) {
		if f == nil || seen[f] || len(f.Blocks) == 0 {
			return
		}
		seen[f] = true
		for _, g := range funcsWithAnon(f) {
			for _, b := range g.Blocks {
				for _, in := range b.Instrs {
					ci, ok := in.(ssa.CallInstruction)
					if !ok {
						continue
					}
					cc := ci.Common()
					if cc.IsInvoke() {
						l := ens.FuncName(cc.Method)
						if strings.HasPrefix(l, "ssv/protocol/v2/qbft.IConfig.") || strings.HasPrefix(l, "ssv/protocol/v2/qbft.signing.") {
							invoked[cc.Method.Name()] = true
						}
						continue
					}
					if sf := cc.StaticCallee(); sf != nil && sf.Pkg != nil && (strings.HasPrefix(sf.Pkg.Pkg.Path(), ssv) || strings.HasPrefix(sf.Pkg.Pkg.Path(), spec)) {
						walk(sf)
					}
				}
			}
		}
	}
	walk(root)
	c.Count("functions_reachable_from_IsProposalJustification", len(seen))
	allowed := map[string]bool{"VerifySignatures": true, "GetSignatureDomainType": true}
	ok := true
	for m := range invoked {
		if !allowed[m] {
			ok = false
			c.Fail("C08-R1a", "IConfig."+m+" invoked under IsProposalJustification", "", "message validation's qbftConfig panics in "+m+"; it must not be reachable from justification validation")
		}
	}
	if ok {
		c.OK("C08-R1a", "IConfig methods invoked under IsProposalJustification", "", "invoked: "+keysSorted(invoked)+" ⊆ {VerifySignatures, GetSignatureDomainType}")
	}
	return ok
}

// dischargeImplicit handles array conversions, constant slices/indices,
// unchecked assertions and non-constant divisors.
func dischargeImplicit(c *core.Ctx, s crashSite, fnName, pos string, facts ens.FactSet, a *ens.FuncAnalysis) {
	base := ""
	if s.extra != nil {
		base = a.D.D(s.extra).String()
	}
	has := func(p string) bool { _, ok := facts.Has(p); return ok }
	switch s.kind {
	case "toarray":
		n := int64(-1)
		if x, ok := s.ins.(*ssa.SliceToArrayPointer); ok {
			if p, ok := x.Type().Underlying().(*types.Pointer); ok {
				if arr, ok := p.Elem().Underlying().(*types.Array); ok {
					n = arr.Len()
				}
			}
		}
		ok := has(fmt.Sprintf("eq(%d, len(%s))", n, base)) || has(fmt.Sprintf("le(%d, len(%s))", n, base))
		// conversions of values that are not network controlled
		if !ok && argSafe(fnName, s.kind) != "" {
			c.OK("C08-R1b", s.key, pos, "argued safe: "+argSafe(fnName, s.kind))
			return
		}
		c.Decide(ok, "C08-R1b", s.key, pos, fmt.Sprintf("len(%s) == %d dominates the conversion", clip(base), n), fmt.Sprintf("slice→[%d]array conversion of %s is not preceded by a length check on every path: a shorter input panics", n, clip(base)))
	case "constslice":
		x := s.ins.(*ssa.Slice)
		need := constInt(x.High)
		if lo := constInt(x.Low); lo > need {
			need = lo
		}
		ok := false
		for k := need; k <= need+512 && !ok; k++ {
			if has(fmt.Sprintf("le(%d, len(%s))", k, base)) || has(fmt.Sprintf("eq(%d, len(%s))", k, base)) {
				ok = true
			}
		}
		if ms, isMake := x.X.(*ssa.MakeSlice); isMake && !ok {
			// a slice made locally with length C+…, C ≥ bound
			if bo, isBin := ms.Len.(*ssa.BinOp); isBin && bo.Op == token.ADD {
				if constInt(bo.X) >= need || constInt(bo.Y) >= need {
					ok = true
				}
			}
		}
		if !ok && argSafe(fnName, s.kind) != "" {
			c.OK("C08-R1b", s.key, pos, "argued safe: "+argSafe(fnName, s.kind))
			return
		}
		c.Decide(ok, "C08-R1b", s.key, pos, fmt.Sprintf("len(%s) ≥ %d dominates the slicing", clip(base), need), fmt.Sprintf("%s is sliced at constant bound %d without a dominating length check: a shorter input panics", clip(base), need))
	case "constindex":
		x := s.ins.(*ssa.IndexAddr)
		need := constInt(x.Index) + 1
		ok := false
		for k := need; k <= need+64 && !ok; k++ {
			if has(fmt.Sprintf("le(%d, len(%s))", k, base)) || has(fmt.Sprintf("eq(%d, len(%s))", k, base)) || (need == 1 && has(fmt.Sprintf("ne(0, len(%s))", base))) {
				ok = true
			}
		}
		if !ok && argSafe(fnName, s.kind) != "" {
			c.OK("C08-R1b", s.key, pos, "argued safe: "+argSafe(fnName, s.kind))
			return
		}
		c.Decide(ok, "C08-R1b", s.key, pos, fmt.Sprintf("len(%s) ≥ %d dominates the index", clip(base), need), fmt.Sprintf("%s is indexed at constant %d without a dominating length check", clip(base), need-1))
	case "crossindex":
		x := s.ins.(*ssa.IndexAddr)
		idx := a.D.D(x.Index).String()
		tgt := a.D.D(x.X).String()
		// base = the slice the index ranges over; tgt = the slice being indexed
		ok := has("lt("+idx+", len("+tgt+"))") || has("le(len("+base+"), len("+tgt+"))") || has("eq(len("+base+"), len("+tgt+"))") || has("eq(len("+tgt+"), len("+base+"))")
		if !ok && argSafe(fnName, s.kind) != "" {
			c.OK("C08-R1c", s.key, pos, "argued safe: "+argSafe(fnName, s.kind))
			return
		}
		c.Decide(ok, "C08-R1c", s.key, pos, "index < len("+clip(tgt)+") on every path", fmt.Sprintf("%s is indexed by the loop variable of a range over %s, but nothing relates their lengths on this path: when %s is shorter the index is out of range", clip(tgt), clip(base), clip(tgt)))
	case "assert":
		checkBodyAssert(c, s, fnName, pos, facts, a)
	case "divisor":
		if fnName == "ssv-spec/qbft.RoundRobinProposer" {
			checkLeaderCallSites(c, s, pos)
			return
		}
		ok := has("ne(0, "+base+")") || has("lt(0, "+base+")") || has("le(1, "+base+")")
		if !ok && argSafe(fnName, s.kind) != "" {
			c.OK("C08-R1b", s.key, pos, "argued safe: "+argSafe(fnName, s.kind))
			return
		}
		c.Decide(ok, "C08-R1b", s.key, pos, "divisor "+clip(base)+" is non-zero on every path", "integer division/modulo by "+clip(base)+" without a dominating non-zero check")
	}
}

// argued-safe table: sites whose operand is not network controlled, one reason each.
func argSafe(fnName, kind string) string {
	table := map[string]string{
		"ssv/message/validation.messageValidator.consensusState|toarray": "MessageID.GetPubKey() slices a fixed 56-byte array into exactly 48 bytes",
		"ssv/network/commons.ECDSAPrivFromInterface|assert":              "converts the node's own identity key (generated or loaded as secp256k1 by the node itself); not a decoder of peer data",
		"ssv/network/commons.ECDSAPubFromInterface|assert":               "reached only from DiscV5Service.Node, which nothing in the node calls (both checked by who-may-call obligations); if it were called with a peer's identity key of another type the assertion would fail — recorded as an observation in DESIGN.md",
	}
	return table[fnName+"|"+kind]
}

// checkBodyAssert: msg.Body.(*T) in validateSSVMessage is safe iff the MsgType
// case it sits in is the MsgType for which DecodeSSVMessage builds a *T body.
func checkBodyAssert(c *core.Ctx, s crashSite, fnName, pos string, facts ens.FactSet, a *ens.FuncAnalysis) {
	ta := s.ins.(*ssa.TypeAssert)
	want := types.TypeString(ta.AssertedType, func(p *types.Package) string { return ens.ShortPkg(p.Path()) })
	if fnName == mvM+"consensusState" {
		// values loaded from mv.index: every Store into that map stores a *ConsensusState
		f := s.fn
		okAll, n := true, 0
		for _, g := range c.P.SourceFuncs(mvPkg) {
			ga := c.E.Analyze(g)
			for _, b := range g.Blocks {
				for _, in := range b.Instrs {
					call, isCall := in.(*ssa.Call)
					if !isCall || call.Call.IsInvoke() {
						continue
					}
					sf := call.Call.StaticCallee()
					if sf == nil || !(sf.String() == "(*sync.Map).Store" || sf.String() == "(*sync.Map).LoadOrStore" || sf.String() == "(*sync.Map).Swap") {
						continue
					}
					if !strings.HasSuffix(ga.D.D(call.Call.Args[0]).String(), ".index") {
						continue
					}
					n++
					mi, isMI := call.Call.Args[2].(*ssa.MakeInterface)
					if !isMI || types.TypeString(mi.X.Type(), func(p *types.Package) string { return ens.ShortPkg(p.Path()) }) != want {
						okAll = false
					}
				}
			}
		}
		_ = f
		c.Decide(okAll && n >= 1, "C08-R1b", s.key, pos, fmt.Sprintf("all %d stores into messageValidator.index store a %s", n, want), "a value of another type is stored into messageValidator.index: the unchecked assertion on load panics")
		return
	}
	if fnName != mvM+"validateSSVMessage" {
		if r := argSafe(fnName, "assert"); r != "" {
			c.OK("C08-R1b", s.key, pos, "argued safe: "+r)
			return
		}
		c.Fail("C08-R1b", s.key, pos, "unchecked type assertion to "+want+" in network-facing code without an obligation")
		return
	}
	// which MsgType case are we in?
	msgType := ""
	for _, k := range facts.Keys() {
		if strings.HasPrefix(k, "eq(") && strings.HasSuffix(k, ":MsgType, p1.MsgType)") {
			msgType = k[3:strings.Index(k, ":MsgType")]
		}
	}
	if msgType == "" {
		c.Fail("C08-R1b", s.key, pos, "the body assertion to "+want+" is not inside a MsgType case")
		return
	}
	dec, err := c.P.Func(ssv + "protocol/v2/ssv/queue.DecodeSSVMessage")
	if err != nil {
		c.Undischarged("C08-R1b", s.key, err.Error())
		return
	}
	da := c.E.Analyze(dec)
	exits, _ := da.Exits("err=nil")
	ok, seenCase := true, false
	got := ""
	for _, ex := range exits {
		if _, in := ex.Facts.Has("eq(" + msgType + ":MsgType, p0.MsgType)"); !in {
			continue
		}
		seenCase = true
	}
	// the returned literal's Body is a φ over the per-case bodies; resolve per case through the φ edge
	for _, b := range dec.Blocks {
		ret, isRet := b.Instrs[len(b.Instrs)-1].(*ssa.Return)
		if !isRet {
			continue
		}
		_ = ret
		for _, in := range b.Instrs {
			phi, isPhi := in.(*ssa.Phi)
			if !isPhi {
				continue
			}
			for i, e := range phi.Edges {
				pf := da.FactsAt(b.Preds[i].Instrs[len(b.Preds[i].Instrs)-1])
				if _, in := pf.Has("eq(" + msgType + ":MsgType, p0.MsgType)"); in {
					seenCase = true
					if mi, isMI := e.(*ssa.MakeInterface); isMI {
						got = types.TypeString(mi.X.Type(), func(p *types.Package) string { return ens.ShortPkg(p.Path()) })
						if got != want {
							ok = false
						}
					} else {
						ok = false
					}
				}
			}
		}
	}
	c.Decide(ok && seenCase, "C08-R1b", s.key, pos, fmt.Sprintf("MsgType %s: DecodeSSVMessage builds a %s body, the assertion expects %s", msgType, got, want),
		fmt.Sprintf("in the MsgType=%s case the body is asserted to %s but DecodeSSVMessage builds %q for that type (or the case is not decoded at all): the assertion panics on network input", msgType, want, got))
}

var leaderChecked = false

// checkLeaderCallSites: RoundRobinProposer's signed % and index are safe iff
// every validation call site bounds round and height.
func checkLeaderCallSites(c *core.Ctx, s crashSite, pos string) {
	if leaderChecked {
		c.OK("C08-R1b", s.key, pos, "discharged with the call-site obligation of RoundRobinProposer")
		return
	}
	leaderChecked = true
	rr, err := c.P.LookupFunc(spec + "qbft.RoundRobinProposer")
	if err != nil {
		c.Undischarged("C08-R1b", s.key, err.Error())
		return
	}
	n := 0
	for _, f := range nodeFuncs(c) {
		inC08 := false
		for _, p := range c08Pkgs {
			if f.Pkg != nil && f.Pkg.Pkg.Path() == p {
				inC08 = true
			}
		}
		if !inC08 {
			continue
		}
		for _, b := range f.Blocks {
			for _, in := range b.Instrs {
				call, ok := in.(*ssa.Call)
				if !ok {
					continue
				}
				if sf := call.Call.StaticCallee(); sf == nil || sf.Object() != types.Object(rr) {
					continue
				}
				n++
				a := c.E.Analyze(f)
				facts := a.FactsAt(call)
				round := a.D.D(call.Call.Args[1]).String()
				for _, r := range []Req{
					{"round≥1", "le(1:Round, " + round + ")", "round 0 makes the leader index negative"},
					{"round bounded", "le(" + round + ", 2147483647:Round)", "a round that overflows int makes the leader index negative"},
					{"height fits int", "le(*.Message.Height, 9223372036854775807:Height)", "a height ≥ 2^63 makes the leader index negative"},
				} {
					k, ok := facts.Has(r.Pat)
					c.Decide(ok, "C08-R1b", "RoundRobinProposer call in "+enclName(f)+"|"+r.Name, c.P.Pos(call.Pos()), clip(k), "specqbft.RoundRobinProposer is reached from validation without "+r.Pat+" — "+r.Why)
				}
			}
		}
	}
	c.Min("C08-R1b", n, 1, "RoundRobinProposer call sites in validation")
	c.OK("C08-R1b", s.key, pos, "signed arithmetic of the leader function: bounded at its validation call site(s); committee non-empty by registry invariant (trusted)")
}

// checkDutyStoreLocks: the duty stores are plain nested Go maps read by message validation
// (validateBeaconDuty) while the scheduler writes them; every map read or write inside a method of
// dutystore.Duties / SyncCommitteeDuties happens with the store's RWMutex taken and its release
// deferred (an explicit early unlock leaves the inner maps unprotected: "concurrent map read and
// map write" is a fatal error no recover() catches).
func checkDutyStoreLocks(c *core.Ctx, rule string) {
	pkg := ssv + "operator/duties/dutystore"
	n := 0
	fns := c.P.SourceFuncs(pkg)
	// the methods of the generic Duties[D] are reached through their instantiations' origins
	seenO := map[*ssa.Function]bool{}
	for _, up := range []string{ssv + "operator/duties", mvPkg} {
		for _, g := range c.P.SourceFuncs(up) {
			for _, b := range g.Blocks {
				for _, in := range b.Instrs {
					ci, ok := in.(ssa.CallInstruction)
					if !ok {
						continue
					}
					cal := ci.Common().StaticCallee()
					if cal == nil || cal.Origin() == nil {
						continue
					}
					o := cal.Origin()
					if o.Pkg != nil && o.Pkg.Pkg.Path() == pkg && !seenO[o] && len(o.Blocks) > 0 {
						seenO[o] = true
						fns = append(fns, o)
					}
				}
			}
		}
	}
	for _, f := range fns {
		if f.Parent() != nil || f.Signature.Recv() == nil || (f.Synthetic != "" && !seenO[f]) {
			continue
		}
		a := c.E.Analyze(f)
		k := 0
		bad := ""
		explicit := ""
		for _, b := range f.Blocks {
			for _, in := range b.Instrs {
				isMap := false
				switch in := in.(type) {
				case *ssa.Lookup:
					_, isMap = in.X.Type().Underlying().(*types.Map)
				case *ssa.MapUpdate:
					isMap = true
				case *ssa.Range:
					_, isMap = in.X.Type().Underlying().(*types.Map)
				case *ssa.Call:
					if bi, ok := in.Call.Value.(*ssa.Builtin); ok && bi.Name() == "delete" {
						isMap = true
					}
					if cal := in.Call.StaticCallee(); cal != nil && (cal.Name() == "Unlock" || cal.Name() == "RUnlock") && strings.HasPrefix(ens.SSAFuncName(cal), "sync.RWMutex.") {
						explicit = c.P.Pos(in.Pos())
					}
				}
				if !isMap {
					continue
				}
				k++
				fs := a.FactsAt(in)
				_, r := fs.Has("deferred(sync.RWMutex.RUnlock(p0.mu))")
				_, w := fs.Has("deferred(sync.RWMutex.Unlock(p0.mu))")
				_, rl := fs.Has("called(sync.RWMutex.RLock(p0.mu))")
				_, wl := fs.Has("called(sync.RWMutex.Lock(p0.mu))")
				_, isWrite := in.(*ssa.MapUpdate)
				if !((r && rl && !isWrite) || (w && wl)) && bad == "" {
					bad = c.P.Pos(in.Pos())
				}
			}
		}
		if k == 0 {
			continue
		}
		n++
		name := enclName(f)
		c.Decide(bad == "", rule, name+"|map accesses under the store lock", c.P.Pos(f.Pos()), fmt.Sprintf("%d map accesses, lock taken and release deferred", k),
			"map access at "+bad+" in "+name+" without the store's lock taken and its release deferred (writes need the write lock)")
		c.Decide(explicit == "", rule, name+"|no early unlock", c.P.Pos(f.Pos()), "release only deferred",
			name+" releases the store lock explicitly at "+explicit+": the nested maps read after it race with the scheduler's writes")
	}
	c.Min(rule, n, 8, "dutystore methods touching the maps")
}
