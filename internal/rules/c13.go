package rules

import (
	"fmt"
	"go/token"
	"strings"

	"golang.org/x/tools/go/ssa"

	"verif/ssvcheck/internal/core"
	"verif/ssvcheck/internal/ens"
)

const ecPkg = ssv + "eth/executionclient"
const ecN = "ssv/eth/executionclient."

func init() {
	register(&Check{
		Prop: "C13",
		Pkgs: []string{"./..."},
		Explain: "Behaviour under real connection drops and strict monotonicity as a property of executions are NOT decided. Decided (engine E6 cursor roles + shapes): " +
			"(R1) cursor roles: with LAST = 'last block delivered' and NEXT = 'next block to fetch', every value returned by streamLogsToChan is NEXT on every path (the fromBlock parameter, a delivered block's BlockNumber+1, or the inclusive upper bound of a completed fetch+1), and StreamLogs resumes from exactly that value (no further +1, never a constant); " +
			"(R2) fetchLogsInBatches: the batch loop runs from=start; from<=end; from+=batch with to=min(from+batch-1,end), queries exactly [from,to], and on every successful iteration sends either the packed non-removed logs in order or one empty BlockLogs whose BlockNumber is that batch's to (so the cursor advances batch by batch and never beyond what was fetched); removed logs are the only ones filtered; an error goes to the error channel and stops the fetch; FetchHistoricalLogs and streamLogsToChan compute to = head − followDistance and skip when to < from; " +
			"(R3) PackLogs sorts by (BlockNumber, TxIndex) and starts a new BlockLogs exactly when the block number changes.",
		Rules: []string{
			"C13-R1 role(return values of streamLogsToChan) = NEXT; role(cursor stores in StreamLogs) = NEXT",
			"C13-R2 loop/literal shapes of fetchLogsInBatches; follow-distance arithmetic",
			"C13-R3 comparison and grouping shapes of PackLogs",
		},
		Trusted: []string{"go/ssa", "the execution client returns the logs of the queried range"},
		Run:     runC13,
	})
}

type cursorRole int

const (
	roleUnknown cursorRole = iota
	roleNext
	roleLast
)

func runC13(c *core.Ctx) {
	// ---------------- R1
	sl := fn(c, "C13-R1", ecPkg+".(*ExecutionClient).streamLogsToChan")
	if sl != nil {
		a := c.E.Analyze(sl)
		var roleOf func(v ssa.Value, seen map[ssa.Value]bool) (cursorRole, string)
		roleOf = func(v ssa.Value, seen map[ssa.Value]bool) (cursorRole, string) {
			if seen[v] {
				return roleNext, "" // loop-carried: decided by the other edges
			}
			seen[v] = true
			switch x := v.(type) {
			case *ssa.Parameter:
				if x == sl.Params[3] {
					return roleNext, ""
				}
			case *ssa.Phi:
				for _, e := range x.Edges {
					if r, why := roleOf(e, seen); r != roleNext {
						return r, why
					}
				}
				return roleNext, ""
			case *ssa.BinOp:
				if x.Op == token.ADD && constInt(x.Y) == 1 {
					if r, _ := lastRole(a, x.X); r == roleLast {
						return roleNext, ""
					}
					return roleUnknown, "x+1 where x is not a delivered block number or a completed fetch bound: " + a.D.D(x.X).String()
				}
			case *ssa.UnOp:
				if x.Op == token.MUL {
					// named result / local: all reaching stores
					if al, ok := x.X.(*ssa.Alloc); ok {
						return allocRole(a, al, roleOf, seen)
					}
				}
			case *ssa.Const:
				return roleUnknown, "a constant (" + a.D.D(v).String() + ") is returned as the cursor"
			}
			if r, _ := lastRole(a, v); r == roleLast {
				return roleLast, "the LAST delivered block (" + clip(a.D.D(v).String()) + ") is returned where the caller expects the NEXT block to fetch"
			}
			return roleUnknown, "cannot classify " + clip(a.D.D(v).String())
		}
		nRet := 0
		for _, b := range sl.Blocks {
			ret, ok := b.Instrs[len(b.Instrs)-1].(*ssa.Return)
			if !ok {
				continue
			}
			nRet++
			v := ret.Results[0]
			// named results live in an alloc when the function defers: use the store that reaches this return
			if ld, ok := v.(*ssa.UnOp); ok && ld.Op == token.MUL {
				if al, ok := ld.X.(*ssa.Alloc); ok {
					if st := lastStoreBefore(ret, al); st != nil {
						v = st.Val
					}
				}
			}
			r, why := roleOf(v, map[ssa.Value]bool{})
			c.Decide(r == roleNext, "C13-R1", fmt.Sprintf("streamLogsToChan|return #%d is the NEXT block to fetch", nRet), c.P.Pos(ret.Pos()), clip(a.D.D(v).String()),
				"streamLogsToChan returns a value that is not 'the next block to fetch' on this path — "+why+": StreamLogs would skip or replay blocks after a reconnect")
		}
		c.Min("C13-R1", nRet, 6, "returns of streamLogsToChan")
	}
	// StreamLogs resumes from exactly the returned value
	if st := fn(c, "C13-R1", ecPkg+".(*ExecutionClient).StreamLogs"); st != nil {
		n := 0
		for _, g := range funcsWithAnon(st) {
			a := c.E.Analyze(g)
			for _, s := range callsIn(g, ecN+"ExecutionClient.streamLogsToChan") {
				if s.Fn != g {
					continue
				}
				arg := s.Instr.Common().Args[3]
				// the cursor variable: a load of a captured variable
				ld, ok := arg.(*ssa.UnOp)
				if !ok {
					c.Fail("C13-R1", "StreamLogs|cursor variable", c.P.Pos(s.Instr.Pos()), "the block passed to streamLogsToChan is not the loop's cursor variable: "+a.D.D(arg).String())
					continue
				}
				for _, b := range g.Blocks {
					for _, in := range b.Instrs {
						store, ok := in.(*ssa.Store)
						if !ok || store.Addr != ld.X {
							continue
						}
						n++
						val := a.D.D(store.Val).String()
						ok2 := ens.Glob(ecN+"ExecutionClient.streamLogsToChan(*)#0", val)
						c.Decide(ok2, "C13-R1", fmt.Sprintf("StreamLogs|cursor assignment #%d resumes from the returned NEXT block", n), c.P.Pos(store.Pos()), clip(val),
							"after a failed stream the cursor is set to "+clip(val)+": it must be exactly the value streamLogsToChan returned (the next block to fetch) — adding one skips a block, anything else replays or skips")
					}
				}
			}
		}
		c.Min("C13-R1", n, 1, "cursor assignments in StreamLogs")
	}

	// ---------------- R2
	checkFetchBatches(c)
	// follow distance
	for _, fnSpec := range []string{ecPkg + ".(*ExecutionClient).streamLogsToChan", ecPkg + ".(*ExecutionClient).FetchHistoricalLogs"} {
		k := atCalls(c, "C13-R2", fnSpec, ecN+"ExecutionClient.fetchLogsInBatches", []Req{
			{"head-beyond-follow-distance", "le(p0.followDistance, *) || le(p0.followDistance, *Uint64(*))", "nothing is fetched before the head is at least followDistance blocks ahead"},
			{"range-non-empty", "le(*, (* - p0.followDistance))", "an empty or inverted range is skipped"},
		})
		c.Min("C13-R2", k, 1, "fetchLogsInBatches call in "+short(fnSpec))
		if f := fn(c, "C13-R2", fnSpec); f != nil {
			for _, s := range callsIn(f, ecN+"ExecutionClient.fetchLogsInBatches") {
				to := s.Arg(c, 3).String()
				c.Decide(strings.HasSuffix(to, " - p0.followDistance)"), "C13-R2", short(fnSpec)+"|upper bound = head − followDistance", c.P.Pos(s.Instr.Pos()), clip(to), "the fetch upper bound is "+clip(to)+", not head − followDistance")
			}
		}
	}

	// ---------------- R3
	checkPackLogs(c)
}

// lastRole: v is a LAST-role value: the BlockNumber of a block received from
// the fetch stream, or head − followDistance (inclusive bound of a completed fetch).
func lastRole(a *ens.FuncAnalysis, v ssa.Value) (cursorRole, string) {
	s := a.D.D(v).String()
	if strings.HasSuffix(s, ".BlockNumber") && (strings.Contains(s, "<-") || strings.Contains(s, "next(range(")) {
		return roleLast, ""
	}
	if strings.HasSuffix(s, " - p0.followDistance)") && strings.Contains(s, "Uint64") {
		return roleLast, ""
	}
	return roleUnknown, ""
}

func allocRole(a *ens.FuncAnalysis, al *ssa.Alloc, roleOf func(ssa.Value, map[ssa.Value]bool) (cursorRole, string), seen map[ssa.Value]bool) (cursorRole, string) {
	n := 0
	for _, b := range al.Parent().Blocks {
		for _, in := range b.Instrs {
			if st, ok := in.(*ssa.Store); ok && st.Addr == ssa.Value(al) {
				n++
				if r, why := roleOf(st.Val, seen); r != roleNext {
					return r, why
				}
			}
		}
	}
	if n == 0 {
		return roleUnknown, "unassigned result (zero) is returned as the cursor"
	}
	return roleNext, ""
}

func lastStoreBefore(ret *ssa.Return, al *ssa.Alloc) *ssa.Store {
	var last *ssa.Store
	for _, in := range ret.Block().Instrs {
		if st, ok := in.(*ssa.Store); ok && st.Addr == ssa.Value(al) {
			last = st
		}
	}
	return last
}

func checkFetchBatches(c *core.Ctx) {
	f := fn(c, "C13-R2", ecPkg+".(*ExecutionClient).fetchLogsInBatches$1")
	if f == nil {
		return
	}
	a := c.E.Analyze(f)
	from := "phi((opaque:cycle + p0.logBatchSize), p2)"
	to := "phi(((" + from + " + p0.logBatchSize) - 1), p3)"
	// the query
	nq := 0
	for _, s := range callsIn(f, "github.com/ethereum/go-ethereum/ethclient.Client.FilterLogs") {
		nq++
		q := a.D.Call(s.Instr).String()
		okq := strings.Contains(q, "FromBlock: math/big.Int.SetUint64(new:math/big.Int, "+from+")") && strings.Contains(q, "ToBlock: math/big.Int.SetUint64(new:math/big.Int, "+to+")") && strings.Contains(q, "Addresses: new:[1]github.com/ethereum/go-ethereum/common.Address{0: p0.contractAddress}")
		c.Decide(okq, "C13-R2", "fetchLogsInBatches|query = contract logs of [from, min(from+batch−1, end)]", c.P.Pos(s.Instr.Pos()), clip(q), "the batch query is "+clip(q)+": it must ask for exactly [from, to] with from stepping by the batch size from start and to = min(from+batch−1, end)")
		facts := a.FactsAt(s.Instr)
		for _, r := range []Req{{"start≤end", "le(p2, p3)", "an inverted range is refused"}, {"from≤end", "le(" + from + ", p3)", "the loop stops after the last block"}} {
			k, ok := facts.Has(r.Pat)
			c.Decide(ok, "C13-R2", "fetchLogsInBatches|"+r.Name, c.P.Pos(s.Instr.Pos()), k, "missing loop guard "+r.Pat+" — "+r.Why)
		}
	}
	c.Min("C13-R2", nq, 1, "FilterLogs calls")
	// what is packed and delivered is the FILTERED slice: every element was appended under ¬log.Removed
	for _, s := range callsIn(f, ecN+"PackLogs") {
		var appends []*ssa.Call
		other := ""
		seen := map[ssa.Value]bool{}
		var walk func(v ssa.Value)
		walk = func(v ssa.Value) {
			if seen[v] {
				return
			}
			seen[v] = true
			switch x := v.(type) {
			case *ssa.Phi:
				for _, e := range x.Edges {
					walk(e)
				}
			case *ssa.MakeSlice:
			case *ssa.Slice:
				walk(x.X)
			case *ssa.Alloc:
			case *ssa.Call:
				if b, ok := x.Call.Value.(*ssa.Builtin); ok && b.Name() == "append" {
					appends = append(appends, x)
					walk(x.Call.Args[0])
					return
				}
				// a private helper that builds the slice (e.g. an extracted filter loop): follow what it returns
				if h := x.Call.StaticCallee(); h != nil && len(h.Blocks) > 0 && h.Pkg == f.Pkg && h.Object() != nil && !h.Object().Exported() {
					for _, hb := range h.Blocks {
						if r, ok := hb.Instrs[len(hb.Instrs)-1].(*ssa.Return); ok && len(r.Results) == 1 {
							walk(r.Results[0])
						}
					}
					return
				}
				other = a.D.D(x).String()
			default:
				other = a.D.D(v).String()
			}
		}
		walk(s.Instr.Common().Args[0])
		ok := other == "" && len(appends) > 0
		for _, ap := range appends {
			if _, notRemoved := c.E.Analyze(ap.Parent()).FactsAt(ap).Has("F(*[_].Removed)"); !notRemoved {
				ok = false
			}
		}
		c.Decide(ok, "C13-R2", "fetchLogsInBatches|only non-removed logs are packed", c.P.Pos(s.Instr.Pos()), fmt.Sprintf("%d append site(s), each under ¬Removed", len(appends)),
			"the slice handed to PackLogs is not built exclusively from logs appended under !log.Removed ("+clip(other)+"): removed logs reach the event handler")
	}
	// the sends
	nEmpty, nPacked, nErr := 0, 0, 0
	for _, b := range f.Blocks {
		for _, in := range b.Instrs {
			snd, ok := in.(*ssa.Send)
			if !ok {
				continue
			}
			ch := a.D.D(snd.Chan).String()
			val := a.D.D(snd.X).String()
			facts := a.FactsAt(snd)
			switch {
			case strings.Contains(ch, "chan error"):
				nErr++
			case strings.Contains(val, "BlockLogs{"):
				nEmpty++
				c.Decide(val == "new:"+ecN+"BlockLogs{BlockNumber: "+to+"}" || val == ecN+"BlockLogs{BlockNumber: "+to+"}" || strings.HasSuffix(val, "BlockLogs{BlockNumber: "+to+"}"), "C13-R2", "fetchLogsInBatches|empty batch marker carries this batch's upper bound", c.P.Pos(snd.Pos()), clip(val),
					"the progress marker of an empty batch is "+clip(val)+": it must be the upper bound of the batch just fetched, otherwise the consumer's cursor jumps past blocks that were not fetched yet (or goes backwards)")
				_, empty := facts.Has("eq(0, len(*))")
				_, okq := facts.Has("ok(github.com/ethereum/go-ethereum/ethclient.Client.FilterLogs(*))")
				c.Decide(empty && okq, "C13-R2", "fetchLogsInBatches|marker only for a successfully fetched batch without valid logs", c.P.Pos(snd.Pos()), "under ok(FilterLogs) ∧ no valid logs", "the empty marker is sent although logs exist or the query failed")
			case strings.Contains(val, ecN+"PackLogs("):
				nPacked++
				c.Decide(strings.Contains(val, ecN+"PackLogs(") && strings.HasSuffix(val, "[_]"), "C13-R2", "fetchLogsInBatches|packed blocks are sent in order", c.P.Pos(snd.Pos()), clip(val), "unexpected value sent: "+clip(val))
				_, okq := facts.Has("ok(github.com/ethereum/go-ethereum/ethclient.Client.FilterLogs(*))")
				c.Decide(okq, "C13-R2", "fetchLogsInBatches|logs are sent only after a successful query", c.P.Pos(snd.Pos()), "under ok(FilterLogs)", "logs are sent on a path where the query failed")
			default:
				c.Fail("C13-R2", "fetchLogsInBatches|unexpected send", c.P.Pos(snd.Pos()), "sends "+clip(val)+" on "+clip(ch))
			}
		}
	}
	c.Decide(nEmpty == 1 && nPacked == 1, "C13-R2", "fetchLogsInBatches|one marker send and one packed-logs send per batch", c.P.Pos(f.Pos()), "1+1", fmt.Sprintf("%d marker sends, %d packed sends", nEmpty, nPacked))
	c.Min("C13-R2", nErr, 3, "error sends (bad input, query error, cancellation)")
	// filtering: only removed logs are dropped
	k := atCalls(c, "C13-R2", ecPkg+".(*ExecutionClient).fetchLogsInBatches$1", "append", []Req{
		{"kept-unless-removed", "F(*[_].Removed)", "a log is dropped only when the client marked it removed"},
	})
	c.Min("C13-R2", k, 1, "valid-log append")
	// every query error stops the fetch
	exits, _ := a.Exits("any")
	bad := ""
	for _, ex := range exits {
		if _, failed := ex.Facts.Has("fail(github.com/ethereum/go-ethereum/ethclient.Client.FilterLogs(*))"); failed {
			if _, sent := ex.Facts.Has("sent(make:chan error, *FilterLogs(*)#1)"); !sent {
				bad = c.P.Pos(ex.Ret.Pos())
			}
		}
	}
	c.Decide(bad == "", "C13-R2", "fetchLogsInBatches|query error is reported and stops the fetch", c.P.Pos(f.Pos()), "error sent before return", "exit "+bad+" returns after a failed query without reporting the error")
}

func checkPackLogs(c *core.Ctx) {
	f := fn(c, "C13-R3", ecPkg+".PackLogs")
	if f == nil {
		return
	}
	k := len(callsIn(f, "sort.Slice"))
	c.Decide(k == 1, "C13-R3", "PackLogs|sorts before grouping", c.P.Pos(f.Pos()), "sort.Slice", "PackLogs no longer sorts the logs")
	if len(f.AnonFuncs) == 1 {
		less := f.AnonFuncs[0]
		a := c.E.Analyze(less)
		exits, _ := a.Exits("any")
		okBlock, okTx := false, false
		for _, ex := range exits {
			v := a.D.D(ex.Ret.Results[0]).String()
			if _, same := ex.Facts.Has("eq(*[_].BlockNumber, *[_].BlockNumber)"); same && strings.Contains(v, ".TxIndex < ") {
				okTx = true
			}
			if _, diff := ex.Facts.Has("ne(*[_].BlockNumber, *[_].BlockNumber)"); diff && strings.Contains(v, ".BlockNumber < ") {
				okBlock = true
			}
		}
		c.Decide(okBlock && okTx, "C13-R3", "PackLogs|order = (BlockNumber, TxIndex)", c.P.Pos(less.Pos()), "block number first, then transaction index", "the sort key is no longer (BlockNumber, TxIndex): logs of one block could be split or reordered")
	} else {
		c.Undischarged("C13-R3", "PackLogs|less function", "expected one closure")
	}
	// grouping: a new BlockLogs starts iff the list is empty or the block number differs from the last group's
	a := c.E.Analyze(f)
	n := 0
	for _, s := range callsIn(f, "append") {
		facts := a.FactsAt(s.Instr)
		node := a.D.Call(s.Instr).String()
		if !strings.Contains(node, "BlockLogs{BlockNumber: ") {
			continue
		}
		n++
		_, empty := facts.Has("eq(0, len(*))")
		_, differs := facts.Has("ne(*.BlockNumber, *[_].BlockNumber)")
		_ = empty
		_ = differs
		c.Decide(strings.Contains(node, "BlockLogs{BlockNumber: p0[_].BlockNumber}"), "C13-R3", "PackLogs|new group carries the log's block number", c.P.Pos(s.Instr.Pos()), clip(node), "a new group is created with "+clip(node))
	}
	c.Min("C13-R3", n, 1, "group creation in PackLogs")
	// the grouping condition
	found := false
	for _, b := range f.Blocks {
		if iff, ok := b.Instrs[len(b.Instrs)-1].(*ssa.If); ok {
			s := a.D.D(iff.Cond).String()
			if strings.Contains(s, ".BlockNumber != p0[_].BlockNumber") {
				found = true
			}
		}
	}
	c.Decide(found, "C13-R3", "PackLogs|group boundary = block number change", c.P.Pos(f.Pos()), "last.BlockNumber != log.BlockNumber", "the grouping condition is no longer a change of block number")
}
