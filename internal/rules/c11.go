package rules

import (
	"fmt"
	"go/ast"
	"go/constant"
	"go/types"
	"sort"
	"strings"

	"golang.org/x/tools/go/ssa"

	"verif/ssvcheck/internal/core"
	"verif/ssvcheck/internal/ens"
)

func init() {
	register(&Check{
		Prop: "C11",
		Pkgs: []string{"./..."},
		Explain: "Equality of the persisted registry with a reference model on every event sequence, batching independence as a behaviour and 'in-memory view == database' are NOT decided. Decided are the structural conditions the registration rules rest on: " +
			"(R1) handleValidatorAdded: the expected nonce is read and then bumped (exactly one BumpNonce call site, before any validation exit, so malformed adds still count once); the share is saved only after validateOperators (≤13, ≠0, 3f+1 size, distinct, all exist), exact share-data length, the owner's BLS signature over owner:nonce with the nonce read BEFORE the bump, and validatorAddedEventToShare (validator key deserialises; own share decrypts, parses and matches its public share); an existing share must have the same owner; " +
			"(R2) remove / exit act only on an existing share whose OwnerAddress equals the event's owner; " +
			"(R3) processEvent skips parse errors and MalformedEventError, propagates everything else; the remote and local event switches cover the same 8 event-name constants; " +
			"(R4) all registry writes go through the block transaction (= C12-R1); " +
			"(R5) read-your-writes inside a block: every registry read made by the handlers (nonce, operators, recipients, shares, marker) goes through the same transaction, so an event sees earlier events of the same block exactly as it would from an earlier block — the structural core of batching independence; the storage layer hands the caller's handle to the database (Using / UsingReader) and never substitutes nil.",
		Rules: []string{
			"C11-R1 facts-before(Shares.Save in handleShareCreation / handleValidatorAdded flow) ⊇ registration guard table; nonce read-then-bump order",
			"C11-R2 facts-before(Shares.Delete / exit descriptor) ⊇ {share≠nil, owner equality}",
			"C11-R3 processEvent outcome table (shared with C12-R2); switch tables agree",
			"C11-R4 = C12-R1",
			"C11-R5 provenance(arg of every basedb.Reader parameter) = the block transaction; storage layer forwards the handle; badgerTxn methods read the wrapped txn and reach no *badger.DB method",
		},
		Trusted: []string{"herumi BLS", "go-ethereum ABI parsing", "Badger", "go/types + go/ssa"},
		Assume:  []string{"observation (not armed): sharesStorage updates its in-memory map before the enclosing transaction commits"},
		Run:     runC11,
		Setup: func(e *ens.Engine) {
			e.Derived = append(e.Derived, ens.Derived{
				Func: ehN + "EventHandler.handleValidatorAdded", Name: "created-or-same-owner",
				Alts: [][]string{
					{"ok(" + ehN + "EventHandler.handleShareCreation(p0, p1, p2, *))"},
					{"eq(p2.Owner, ssv/registry/storage.Shares.Get(*, p1, p2.PublicKey).Metadata.OwnerAddress)"},
				},
			})
		},
	})
}

func runC11(c *core.Ctx) {
	eh := ehPkg + ".(*EventHandler)."
	// a fee-recipient update rewrites the owner's record: it must start from the stored record (read
	// through the transaction), otherwise the registration nonce kept in the same record is wiped
	if f := fn(c, "C11-R1", eh+"handleFeeRecipientAddressUpdated"); f != nil {
		k := 0
		for _, s := range callsIn(f, "ssv/registry/storage.Recipients.SaveRecipientData") {
			k++
			arg := s.Arg(c, len(s.Instr.Common().Args)-1).String()
			c.Decide(strings.Contains(arg, "ssv/registry/storage.Recipients.GetRecipientData(p0.nodeStorage, p1, p2.Owner)#0"), "C11-R1", "handleFeeRecipientAddressUpdated|saves the stored record updated in place", c.P.Pos(s.Instr.Pos()), clip(arg),
				"the record saved for the owner is "+clip(arg)+": it is not derived from the stored record, so the owner's registration nonce is reset and later ValidatorAdded events are judged against the wrong nonce")
		}
		c.Min("C11-R1", k, 1, "SaveRecipientData in handleFeeRecipientAddressUpdated")
	}
	// the event's fields reach the rules unmodified: the logging helpers called first are pure
	checkLoggingPure(c, "C11-R1")
	// ---------------- R1
	hva := eh + "handleValidatorAdded"
	nonce := "ssv/registry/storage.Recipients.GetNextNonce(p0.nodeStorage, p1, p2.Owner)"
	bump := "ssv/registry/storage.Recipients.BumpNonce(p0.nodeStorage, p1, p2.Owner)"
	k := atCalls(c, "C11-R1", hva, "ssv/registry/storage.Recipients.BumpNonce", []Req{
		{"nonce-read-first", "ok(" + nonce + ")", "the expected nonce must be read before it is bumped"},
	})
	c.Decide(k == 1, "C11-R1", "handleValidatorAdded|exactly-one-bump", "", "one BumpNonce call site", fmt.Sprintf("%d BumpNonce call sites: the nonce must count every add attempt exactly once", k))
	// every exit after the nonce read has bumped (or failed to bump): malformed adds still count
	f := fn(c, "C11-R1", hva)
	if f != nil {
		a := c.E.Analyze(f)
		exits, _ := a.Exits("any")
		bad := ""
		for _, ex := range exits {
			if _, read := ex.Facts.Has("ok(" + nonce + ")"); !read {
				continue
			}
			if _, b := ex.Facts.Has("called(" + bump + ")"); !b {
				bad = c.P.Pos(ex.Ret.Pos())
			}
		}
		c.Decide(bad == "", "C11-R1", "handleValidatorAdded|bump-on-every-path", c.P.Pos(f.Pos()), "every exit after the nonce read has called BumpNonce", "exit "+bad+" returns after reading the nonce without bumping it: that add attempt would not be counted")
	}
	guards := []Req{
		{"nonce-bumped", "ok(" + bump + ")", "the nonce is bumped before the share is created"},
		{"operators-valid", "ok(" + ehN + "EventHandler.validateOperators(p0, p1, p2.OperatorIds))", "committee must be validated"},
		{"shares-length", "eq(((256 * len(p2.OperatorIds)) + ((48 * len(p2.OperatorIds)) + 96)), len(p2.Shares))", "share data must have exactly the expected length"},
		{"owner-signature", "ok(" + ehN + "verifySignature(p2.Shares[:96], p2.Owner, p2.PublicKey, " + nonce + "#0))", "the owner's signature must verify over the nonce read BEFORE the bump"},
		{"share-absent", "isnil(ssv/registry/storage.Shares.Get(ssv/operator/storage.Storage.Shares(p0.nodeStorage), p1, p2.PublicKey))", "a share is created only when none exists for the key"},
	}
	k = atCalls(c, "C11-R1", hva, ehN+"EventHandler.handleShareCreation", guards)
	c.Min("C11-R1", k, 1, "handleShareCreation call")
	ensures(c, "C11-R1", hva, "err=nil", []Req{
		{"nonce-bumped", "ok(" + bump + ")", ""},
		{"operators-valid", "ok(" + ehN + "EventHandler.validateOperators(p0, p1, p2.OperatorIds))", ""},
		{"owner-signature", "ok(" + ehN + "verifySignature(p2.Shares[:96], p2.Owner, p2.PublicKey, " + nonce + "#0))", ""},
		{"created-or-same-owner", "or(created-or-same-owner)", "an existing share must belong to the same owner"},
	})
	ensures(c, "C11-R1", eh+"validateOperators", "err=nil", []Req{
		{"at-most-13", "le(len(p2), 13)", ""},
		{"non-empty", "ne(0, len(p2))", ""},
		{"3f+1", "T(ssv/protocol/v2/types.ValidCommitteeSize(len*(p2)))", ""},
		{"distinct", "forall(F(make:map[uint64]struct{}[p2[_]]#1))", "duplicate operator ids must be refused"},
		{"all-exist", "T(ssv/registry/storage.Operators.OperatorsExist(p0.nodeStorage, p1, p2)#0)", "unknown operators must be refused, looked up through the transaction"},
	})
	ensures(c, "C11-R1", ehPkg+".verifySignature", "err=nil", []Req{
		{"sig-parsed", "ok(github.com/herumi/bls-eth-go-binary/bls.Sign.Deserialize(*, p0))", ""},
		{"pk-parsed", "ok(github.com/herumi/bls-eth-go-binary/bls.PublicKey.Deserialize(*, p2))", ""},
		{"bls-over-owner-nonce", "T(github.com/herumi/bls-eth-go-binary/bls.Sign.VerifyByte(*, *, github.com/ethereum/go-ethereum/crypto.Keccak256(*fmt.Sprintf(\"%s:%d\", *github.com/ethereum/go-ethereum/common.Address.String(p1)*p3*", "the signed message is keccak(owner:nonce)"},
	})
	hsc := eh + "handleShareCreation"
	k = atCalls(c, "C11-R1", hsc, "ssv/registry/storage.Shares.Save", []Req{
		{"share-built-from-event", "ok(" + ehN + "EventHandler.validatorAddedEventToShare(p0, p2, p3, p4))", "only a share extracted (and key-checked) from the event is saved"},
	})
	c.Min("C11-R1", k, 1, "Shares.Save in handleShareCreation")
	atCalls(c, "C11-R1", hsc, "ssv-spec/types.KeyManager.AddShare", []Req{
		{"own-share", "T(ssv/protocol/v2/types.SSVShare.BelongsToOperator(*", "only the operator's own share key goes to the key manager"},
		{"secret-present", "nonnil(" + ehN + "EventHandler.validatorAddedEventToShare(p0, p2, p3, p4)#1)", ""},
	})
	ensures(c, "C11-R1", eh+"validatorAddedEventToShare", "err=nil", []Req{
		{"validator-key-valid", "ok(ssv/protocol/v2/types.DeserializeBLSPublicKey(p1.PublicKey))", "a malformed validator key must be refused"},
	})
	// own-share checks: on every accept path through the own-operator branch
	f2 := fn(c, "C11-R1", eh+"validatorAddedEventToShare")
	if f2 != nil {
		for _, s := range []struct{ callee, name string }{
			{"github.com/herumi/bls-eth-go-binary/bls.SecretKey.GetPublicKey", "own key compared"},
		} {
			n := atCalls(c, "C11-R1", eh+"validatorAddedEventToShare", s.callee, []Req{
				{"decrypted", "ok(ssv/operator/keys.OperatorDecrypter.Decrypt(p0.operatorDecrypter, p3[_]))", "the own share must decrypt"},
				{"parsed", "isnil(github.com/herumi/bls-eth-go-binary/bls.SecretKey.SetHexString(*)) || ok(github.com/herumi/bls-eth-go-binary/bls.SecretKey.SetHexString(*))", "the decrypted key must parse"},
			})
			c.Min("C11-R1", n, 1, s.name)
		}
		// the loop continues / function accepts only when the derived public key equals the share public key
		a := c.E.Analyze(f2)
		exits, _ := a.Exits("err=nil")
		for _, ex := range exits {
			_, mismatchAccepted := ex.Facts.Has("F(bytes.Equal(github.com/herumi/bls-eth-go-binary/bls.PublicKey.Serialize(*), *SharePubKey*))")
			c.Decide(!mismatchAccepted, "C11-R1", "validatorAddedEventToShare|key-mismatch-refused", c.P.Pos(ex.Ret.Pos()), "no accept exit under a key mismatch", "a share whose private key does not match its public share is accepted")
		}
	}

	// ---------------- R2
	for _, h := range []struct{ fn, sink string }{
		{"handleValidatorRemoved", "ssv/registry/storage.Shares.Delete"},
		{"handleValidatorRemoved", "ssv-spec/types.KeyManager.RemoveShare"},
		{"handleValidatorRemoved", "ssv/ibft/storage.QBFTStores.Each"},
	} {
		n := atCalls(c, "C11-R2", eh+h.fn, h.sink, []Req{
			{"share-exists", "nonnil(ssv/registry/storage.Shares.Get(ssv/operator/storage.Storage.Shares(p0.nodeStorage), p1, p2.PublicKey))", "unknown validators cannot be removed"},
			{"owner-only", "eq(p2.Owner, ssv/registry/storage.Shares.Get(ssv/operator/storage.Storage.Shares(p0.nodeStorage), p1, p2.PublicKey).Metadata.OwnerAddress)", "only the owner can remove a validator"},
		})
		c.Min("C11-R2", n, 1, h.sink+" in "+h.fn)
	}
	ensures(c, "C11-R2", eh+"handleValidatorExited", "r0=nonnil,err=nil", []Req{
		{"share-exists", "nonnil(ssv/registry/storage.Shares.Get(ssv/operator/storage.Storage.Shares(p0.nodeStorage), p1, p2.PublicKey))", ""},
		{"owner-only", "eq(p2.Owner, ssv/registry/storage.Shares.Get(ssv/operator/storage.Storage.Shares(p0.nodeStorage), p1, p2.PublicKey).Metadata.OwnerAddress)", "only the owner can exit a validator"},
		{"own-validator", "T(ssv/protocol/v2/types.SSVShare.BelongsToOperator(*", ""},
	})

	// ---------------- R3
	checkProcessEventOutcomesAs(c, "C11-R3")
	checkEventSwitches(c)

	// ---------------- R4 / R5
	n := checkTxnThreading(c, "C11-R4", "write")
	c.Min("C11-R4", n, 7, "storage write calls in eth/eventhandler")
	n = checkTxnThreading(c, "C11-R5", "read")
	c.Min("C11-R5", n, 8, "storage read calls in eth/eventhandler")
	n = checkStorageForwarding(c)
	c.Min("C11-R5", n, 12, "Using/UsingReader calls in the storage layer")
}

// checkProcessEventOutcomesAs re-labels the C12-R2 outcome rule.
func checkProcessEventOutcomesAs(c *core.Ctx, rule string) {
	before := len(c.Obls)
	checkProcessEventOutcomes(c)
	for _, o := range c.Obls[before:] {
		o.Rule = rule
	}
}

// checkEventSwitches: the case constants of processEvent's switch on the ABI
// event name and of processLocalEvent's switch are the same set, and it is
// the set of the 8 event-name constants of the package.
func checkEventSwitches(c *core.Ctx) {
	pk := c.P.Pkg(ehPkg)
	if pk == nil {
		c.Undischarged("C11-R3", "anchor:eth/eventhandler", "package not loaded")
		return
	}
	cases := func(fnName string) (map[string]bool, string) {
		out := map[string]bool{}
		pos := ""
		for _, file := range pk.Syntax {
			for _, d := range file.Decls {
				fd, ok := d.(*ast.FuncDecl)
				if !ok || fd.Name.Name != fnName || fd.Body == nil {
					continue
				}
				pos = c.P.Pos(fd.Pos())
				ast.Inspect(fd.Body, func(n ast.Node) bool {
					sw, ok := n.(*ast.SwitchStmt)
					if !ok || sw.Tag == nil {
						return true
					}
					if tv, ok := pk.TypesInfo.Types[sw.Tag]; !ok || !types.Identical(tv.Type.Underlying(), types.Typ[types.String]) {
						return true
					}
					for _, st := range sw.Body.List {
						cc := st.(*ast.CaseClause)
						for _, e := range cc.List {
							if tv, ok := pk.TypesInfo.Types[e]; ok && tv.Value != nil && tv.Value.Kind() == constant.String {
								out[constant.StringVal(tv.Value)] = true
							}
						}
					}
					return false
				})
			}
		}
		return out, pos
	}
	remote, p1 := cases("processEvent")
	local, _ := cases("processLocalEvent")
	want := []string{"OperatorAdded", "OperatorRemoved", "ValidatorAdded", "ValidatorRemoved", "ClusterLiquidated", "ClusterReactivated", "FeeRecipientAddressUpdated", "ValidatorExited"}
	keysOf := func(m map[string]bool) string {
		var k []string
		for x := range m {
			k = append(k, x)
		}
		sort.Strings(k)
		return strings.Join(k, ",")
	}
	sort.Strings(want)
	c.Decide(keysOf(remote) == strings.Join(want, ","), "C11-R3", "processEvent|event-name cases", p1, keysOf(remote), "processEvent handles {"+keysOf(remote)+"}, the registry emits {"+strings.Join(want, ",")+"}: an unhandled event is silently skipped and the registry diverges")
	c.Decide(keysOf(local) == keysOf(remote), "C11-R3", "processLocalEvent|same cases as processEvent", p1, keysOf(local), "local and remote event switches disagree: "+keysOf(local)+" vs "+keysOf(remote))
}

// checkStorageForwarding: in registry/storage and operator/storage every
// db.Using(x) / db.UsingReader(x) call made inside a function that takes a
// database handle forwards that very parameter.
func checkStorageForwarding(c *core.Ctx) int {
	n := 0
	seen := map[string]int{}
	for _, pkg := range []string{ssv + "registry/storage", ssv + "operator/storage"} {
		for _, ta := range txnArgs(c, pkg) {
			top := topFunc(ta.encl)
			hasHandle := -1
			for i, p := range top.Params {
				if basedbKind(p.Type()) != "" {
					hasHandle = i
				}
			}
			if hasHandle < 0 {
				continue // maintenance functions without a caller-supplied handle
			}
			n++
			a := c.E.Analyze(ta.encl)
			node := a.D.D(ta.arg)
			encl := enclName(ta.encl)
			key := encl + "|" + ta.label
			seen[key]++
			ok := node.K == "param" && atoiSafe(node.L) >= 0 && atoiSafe(node.L) < len(ta.encl.Params) && basedbKind(ta.encl.Params[atoiSafe(node.L)].Type()) != ""
			c.Decide(ok, "C11-R5", fmt.Sprintf("%s#%d|forwards-handle", key, seen[key]), c.P.Pos(ta.instr.Pos()), "forwards the caller's handle",
				fmt.Sprintf("%s passes %s to %s instead of the handle it was given: the operation leaves the caller's transaction", encl, clip(node.String()), ta.label))
		}
	}
	n += checkNoHandleBypass(c, "C11-R5")
	return n
}

// checkTxnImplementation: the transaction handle itself. Every data method of storage/kv.badgerTxn
// works on the badger transaction it wraps: it reads the receiver's txn field and never reaches a
// method of *badger.DB (View / Update / NewTransaction …), i.e. never opens a transaction of its
// own — a read through a fresh view misses the block's uncommitted writes, a write through a fresh
// update escapes its rollback.
func checkTxnImplementation(c *core.Ctx, rule string) int {
	kv := ssv + "storage/kv"
	n := 0
	for _, f := range c.P.SourceFuncs(kv) {
		if f.Parent() != nil || f.Signature.Recv() == nil {
			continue
		}
		rt := f.Signature.Recv().Type()
		if p, ok := rt.(*types.Pointer); ok {
			rt = p.Elem()
		}
		nt, ok := rt.(*types.Named)
		if !ok || nt.Obj().Name() != "badgerTxn" || f.Synthetic != "" {
			continue
		}
		n++
		// 1. uses the wrapped transaction
		usesTxn := false
		for _, g := range funcsWithAnon(f) {
			for _, b := range g.Blocks {
				for _, in := range b.Instrs {
					switch in := in.(type) {
					case *ssa.Field:
						if st, ok := in.X.Type().Underlying().(*types.Struct); ok && st.Field(in.Field).Name() == "txn" {
							usesTxn = true
						}
					case *ssa.FieldAddr:
						if fieldName(in) == "txn" {
							usesTxn = true
						}
					}
				}
			}
		}
		c.Decide(usesTxn, rule, "badgerTxn."+f.Name()+"|works on the wrapped transaction", c.P.Pos(f.Pos()), "reads t.txn", "badgerTxn."+f.Name()+" never touches the badger transaction it wraps")
		// 2. reaches no method of *badger.DB
		seen := map[*ssa.Function]bool{}
		var path []string
		var bad string
		var walk func(g *ssa.Function, depth int)
		walk = func(g *ssa.Function, depth int) {
			if g == nil || seen[g] || depth > 4 || bad != "" {
				return
			}
			seen[g] = true
			path = append(path, enclName(g))
			defer func() { path = path[:len(path)-1] }()
			for _, h := range funcsWithAnon(g) {
				for _, b := range h.Blocks {
					for _, in := range b.Instrs {
						ci, ok := in.(ssa.CallInstruction)
						if !ok {
							continue
						}
						callee := ci.Common().StaticCallee()
						if callee == nil {
							continue
						}
						if r := callee.Signature.Recv(); r != nil && strings.HasSuffix(r.Type().String(), "dgraph-io/badger/v4.DB") {
							if bad == "" {
								bad = strings.Join(path, " → ") + " → badger.DB." + callee.Name() + " at " + c.P.Pos(in.Pos())
							}
							return
						}
						if callee.Pkg != nil && callee.Pkg.Pkg.Path() == kv {
							walk(callee, depth+1)
						}
					}
				}
			}
		}
		walk(f, 0)
		c.Decide(bad == "", rule, "badgerTxn."+f.Name()+"|opens no transaction of its own", c.P.Pos(f.Pos()), "no path to a *badger.DB method",
			"a method of the transaction handle leaves the transaction: "+bad+" — reads miss the transaction's own writes (an operator added earlier in the block looks absent), writes escape its rollback")
	}
	c.Min(rule, n, 8, "methods of storage/kv.badgerTxn")
	// keys handed to badger are fresh slices (badger keeps the key slice until commit: a reused buffer
	// makes every pending entry of a SetMany carry the last key), built from the caller's prefix
	nk := 0
	for _, f := range c.P.SourceFuncs(kv) {
		if f.Signature.Recv() == nil || !strings.Contains(f.Signature.Recv().Type().String(), "badgerTxn") {
			continue
		}
		a := c.E.Analyze(f)
		for _, b := range f.Blocks {
			for _, in := range b.Instrs {
				ci, ok := in.(ssa.CallInstruction)
				if !ok {
					continue
				}
				cal := ci.Common().StaticCallee()
				if cal == nil || cal.Signature.Recv() == nil || !strings.HasSuffix(cal.Signature.Recv().Type().String(), "dgraph-io/badger/v4.Txn") {
					continue
				}
				if cal.Name() != "Set" && cal.Name() != "Get" && cal.Name() != "Delete" {
					continue
				}
				nk++
				key := a.D.D(ci.Common().Args[1]).String()
				c.Decide(strings.HasPrefix(key, "append(p1, "), rule, fmt.Sprintf("badgerTxn.%s|%s key is a fresh append(prefix, key…)", topFunc(f).Name(), cal.Name()), c.P.Pos(in.Pos()), clip(key),
					"the key handed to badger is "+clip(key)+", not a fresh append(prefix, key…): badger keeps the slice until commit, so a reused buffer aliases the keys of all pending writes")
			}
		}
	}
	c.Min(rule, nk, 4, "badger key arguments in badgerTxn")
	// a read error is not "not found": callers test !found before err
	var getFn *ssa.Function
	for _, f := range c.P.SourceFuncs(kv) {
		if r := f.Signature.Recv(); r != nil && f.Parent() == nil && f.Synthetic == "" && f.Name() == "Get" && strings.HasSuffix(r.Type().String(), "kv.badgerTxn") {
			getFn = f
		}
	}
	if getFn == nil {
		c.Undischarged(rule, "anchor:badgerTxn.Get", "method not found")
	} else {
		f := getFn
		a := c.E.Analyze(f)
		exits, err := a.Exits("r1=false,err=nonnil")
		c.Decide(err == nil && len(exits) == 0, rule, "badgerTxn.Get|found=false only without error", c.P.Pos(f.Pos()), "no exit returns (found=false, err≠nil)",
			"badgerTxn.Get reports found=false together with an error: callers that test !found first (last processed block, wallet, accounts) take a failed read for an absent record")
	}
	return 0
}

// checkNoHandleBypass: inside a registry / operator storage function that was given a database
// handle, no read or write is issued on the Database itself (only on db.Using(h) / db.UsingReader(h)).
func checkNoHandleBypass(c *core.Ctx, rule string) int {
	n := 0
	// no data access may bypass the handle: inside a function that was given a handle, a read or write
	// issued on the Database itself (not on db.Using(h) / db.UsingReader(h)) sees only committed state
	// and writes outside the caller's transaction
	dataMethods := map[string]bool{"Get": true, "GetMany": true, "GetAll": true, "Set": true, "SetMany": true, "Delete": true}
	for _, pkg := range []string{ssv + "registry/storage", ssv + "operator/storage"} {
		for _, f := range c.P.SourceFuncs(pkg) {
			top := topFunc(f)
			hasHandle := false
			for _, p := range top.Params {
				if basedbKind(p.Type()) != "" {
					hasHandle = true
				}
			}
			if !hasHandle {
				continue
			}
			for _, b := range f.Blocks {
				for _, in := range b.Instrs {
					ci, ok := in.(ssa.CallInstruction)
					if !ok || !ci.Common().IsInvoke() || !dataMethods[ci.Common().Method.Name()] {
						continue
					}
					nt, ok := ci.Common().Value.Type().(*types.Named)
					if !ok || nt.Obj().Pkg() == nil || nt.Obj().Pkg().Path() != ssv+"storage/basedb" {
						continue
					}
					n++
					direct := nt.Obj().Name() == "Database"
					c.Decide(!direct, rule, enclName(f)+"|"+ci.Common().Method.Name()+"|through-the-handle", c.P.Pos(in.Pos()), "issued on "+nt.Obj().Name(),
						enclName(f)+" was given a database handle but issues "+ci.Common().Method.Name()+" on the Database itself: the access bypasses the caller's transaction (reads miss its uncommitted writes, writes escape its rollback)")
				}
			}
		}
	}
	checkTxnImplementation(c, rule)
	return n
}

// checkLoggingPure: the zap field helpers of logging/fields are called with live protocol data
// (event.OperatorIds, committees, message ids) at the top of the handlers; none of them may write
// through a slice / pointer / map parameter or hand one to a sorting or copying routine.
func checkLoggingPure(c *core.Ctx, rule string) {
	pkg := ssv + "logging/fields"
	n := 0
	for _, f := range c.P.SourceFuncs(pkg) {
		top := topFunc(f)
		isParam := func(v ssa.Value) bool {
			for depth := 0; depth < 8 && v != nil; depth++ {
				switch x := v.(type) {
				case *ssa.Parameter:
					return true
				case *ssa.FreeVar:
					return true
				case *ssa.IndexAddr:
					v = x.X
				case *ssa.FieldAddr:
					v = x.X
				case *ssa.Slice:
					v = x.X
				case *ssa.UnOp:
					v = x.X
				case *ssa.ChangeType:
					v = x.X
				case *ssa.MakeInterface:
					v = x.X
				case *ssa.Convert:
					v = x.X
				case *ssa.Alloc:
					// a parameter spilled because a closure captures it
					if refs := x.Referrers(); refs != nil {
						for _, r := range *refs {
							if st, ok := r.(*ssa.Store); ok && st.Addr == ssa.Value(x) {
								if _, isP := st.Val.(*ssa.Parameter); isP {
									return true
								}
							}
						}
					}
					return false
				default:
					return false
				}
			}
			return false
		}
		bad := ""
		for _, b := range f.Blocks {
			for _, in := range b.Instrs {
				switch in := in.(type) {
				case *ssa.Store:
					if _, ok := in.Addr.(*ssa.Alloc); !ok && isParam(in.Addr) && bad == "" {
						bad = "store through a parameter at " + c.P.Pos(in.Pos())
					}
				case *ssa.MapUpdate:
					if isParam(in.Map) && bad == "" {
						bad = "map update of a parameter at " + c.P.Pos(in.Pos())
					}
				case *ssa.Call:
					lbl := callLabel(in.Common())
					if strings.HasPrefix(lbl, "sort.") || strings.HasPrefix(lbl, "slices.Sort") || strings.HasPrefix(lbl, "slices.Reverse") || lbl == "copy" || strings.HasPrefix(lbl, "golang.org/x/exp/slices.Sort") {
						for i, arg := range in.Call.Args {
							if (lbl != "copy" || i == 0) && isParam(arg) && bad == "" {
								bad = lbl + " applied to a parameter at " + c.P.Pos(in.Pos())
							}
						}
					}
				}
			}
		}
		n++
		if f == top {
			c.Decide(bad == "", rule, "logging/fields."+top.Name()+"|does not modify its arguments", c.P.Pos(f.Pos()), "no write through a parameter", "the logging helper "+top.Name()+" modifies what it is given ("+bad+"): handlers pair event.OperatorIds[i] with the i-th share key after logging it")
		} else if bad != "" {
			c.Fail(rule, "logging/fields."+top.Name()+"|closure does not modify captured arguments", c.P.Pos(f.Pos()), "a closure of the logging helper "+top.Name()+" modifies captured data ("+bad+")")
		}
	}
	c.Min(rule, n, 30, "functions of logging/fields")
}
