package rules

import (
	"verif/ssvcheck/internal/core"
)

const cN = "ssv/protocol/v2/qbft/controller."

func init() {
	register(&Check{
		Prop:  "C02",
		Pkgs:  []string{"./..."},
		Setup: qbftSetup,
		Explain: "Decides the structural necessary conditions of 'every reported decision is backed by a verifiable quorum certificate': " +
			"(R1) ValidateDecided's accept exit implies commit type, ≥ Share.Quorum signers, SignedMessage.Validate (distinct non-zero signers — ssv-spec fact imported through the summary), BaseCommitValidation with the message's own height against share.Committee (which implies BLS VerifyByOperators, failing on unknown signers), and H(FullData)==Root; IsDecidedMsg ≡ HasQuorum(len(Signers)) ∧ type==Commit; " +
			"(R2) every state mutation and every save in Controller.UponDecided is preceded on all paths by ok(ValidateDecided(c.config, msg, c.Share)); UponDecided is reached only from Controller.ProcessMsg under IsDecidedMsg and identifier equality; in the already-decided branch a certificate is stored only with strictly more signers; " +
			"(R3) a local decision returns the aggregate of exactly the commits counted for (msg.Round, msg.Root) with the accepted proposal's FullData, and the proposal passed isValidProposal (value check + leader) — by C01-R1/R2, re-checked here on UponCommit; " +
			"(R4) QBFTStore.Save* is reached only through Controller.SaveInstance, called only from UponDecided (R2), baseConsensusMsgProcessing (under didDecideCorrectly) and NonCommitteeValidator.ProcessMessage (decided != nil). " +
			"NOT decided: cryptographic soundness of BLS aggregate verification; behaviours over message histories.",
		Rules: []string{
			"C02-R1 Ens(ValidateDecided|accept) ⊇ certificate guard table; Ens(IsDecidedMsg|true)",
			"C02-R2 facts-before(every mutation in UponDecided) ∋ ok(ValidateDecided); who-may-call(UponDecided)",
			"C02-R3 Ens(UponCommit|decided) ⊇ {quorum for (round, root), aggregate of counted msgs}; aggregateCommitMsgs uses SignedMessage.Aggregate",
			"C02-R4 who-may-call(QBFTStore.Save*) and who-may-call(Controller.SaveInstance)",
			"C02-R5 production qbft.Config literals: ProposerF = RoundRobinProposer(state, round), SignatureVerification = true; writes of Share.Quorum / PartialQuorum = 2f+1 / f+1 over len(own committee)",
		},
		Trusted: []string{"herumi BLS FastAggregateVerify", "ssv-spec SignedMessage.Validate / Aggregate semantics (their guard facts are imported by summary, their loops are not re-proved)", "go/types + go/ssa"},
		Assume:  []string{"config.VerifySignatures() true in production (C01-R6)"},
		Run:     runC02,
	})
}

func runC02(c *core.Ctx) {
	ctrl := ctrlPkg + ".(*Controller)."
	// "proposed by the legitimate leader of its round": the leader function every production
	// config is wired with is the protocol's round-robin proposer for the QUERIED round, and
	// signature verification is on (shared with C01-R6)
	checkConfigLiteralsRule(c, "C02-R5")
	// ---------------- R1
	ensures(c, "C02-R1", ctrlPkg+".IsDecidedMsg", "ret=true", []Req{
		{"quorum-signers", "T(ssv-spec/types.Share.HasQuorum(p0, len(p1.Signers)))", "a decided message needs ≥ quorum signers"},
		{"threshold", "le(p0.Quorum, uint64(len(p1.Signers)))", "the threshold must be Share.Quorum (2f+1)"},
		{"commit-type", "eq(2:MessageType, p1.Message.MsgType)", "only commits are decided messages"},
	})
	ensures(c, "C02-R1", ctrlPkg+".ValidateDecided", "err=nil", []Req{
		{"is-decided", "T(" + cN + "IsDecidedMsg(p2, p1))", "sub-quorum messages must be refused"},
		{"quorum-threshold", "le(p2.Quorum, uint64(len(p1.Signers)))", ""},
		{"commit-type", "eq(2:MessageType, p1.Message.MsgType)", ""},
		{"well-formed", "ok(ssv-spec/qbft.SignedMessage.Validate(p1))", "duplicate / zero signers must be refused"},
		{"signers-nonzero", "forall(ne(0, p1.Signers[_]))", "imported from SignedMessage.Validate: no zero signer"},
		{"signers-distinct", "forall(F(make:map[ssv-spec/types.OperatorID]bool[p1.Signers[_]]))", "imported from SignedMessage.Validate: signers are unique"},
		{"base-commit-validation", "ok(" + iN + "BaseCommitValidation(p0, p1, p1.Message.Height, p2.Committee))", "validated as a commit for its own height against the committee"},
		{"aggregate-signature", verifyBy("p1", "p0", "p2.Committee"), "the aggregate BLS signature must verify over exactly the listed committee keys"},
		{"bls", "T(github.com/herumi/bls-eth-go-binary/bls.Sign.FastAggregateVerify(*", "verification must end in the BLS aggregate check"},
		{"data-matches-root", "T(bytes.Equal(ssv-spec/qbft.HashDataRoot(p1.FullData)#0[:], p1.Message.Root[:]))", "the value must hash to the signed root"},
	})
	checkVerifyByOperators(c, "C02-R1")

	// ---------------- R2
	ud := ctrl + "UponDecided"
	guard := []Req{{"validated-certificate", "ok(" + cN + "ValidateDecided(p0.config, p2, p0.Share))", "nothing may be changed or stored before the decided message is validated with the controller's own config and share"}}
	n := 0
	for _, fld := range []string{"Decided", "DecidedValue", "Round"} {
		n += atStores(c, "C02-R2", ud, spec+"qbft.State."+fld, guard)
	}
	n += atStores(c, "C02-R2", ud, ctrlPkg+".Controller.Height", guard)
	for _, callee := range []string{"ssv-spec/qbft.MsgContainer.AddMsg", cN + "InstanceContainer.addNewInstance", cN + "Controller.SaveInstance", "dyn"} {
		n += atCalls(c, "C02-R2", ud, callee, guard)
	}
	c.Min("C02-R2", n, 13, "mutations in UponDecided")
	// already-decided branch: more signers only
	atCalls(c, "C02-R2", ud, "ssv-spec/qbft.MsgContainer.AddMsg", []Req{
		{"new-or-undecided-or-more-signers",
			"isnil(" + cN + "Controller.InstanceForHeight(p0, p1, p2.Message.Height)) || F(" + iN + "Instance.IsDecided(" + cN + "Controller.InstanceForHeight(p0, p1, p2.Message.Height))#0) || F(" + cN + "Controller.InstanceForHeight(p0, p1, p2.Message.Height).State.Decided) || lt(len(ssv-spec/qbft.MsgContainer.LongestUniqueSignersForRoundAndRoot(" + cN + "Controller.InstanceForHeight(p0, p1, p2.Message.Height).State.CommitContainer, p2.Message.Round, p2.Message.Root)#0), len(p2.Signers))",
			"a stored certificate may only be replaced by one with strictly more signers"},
	})
	if tf, err := c.P.LookupFunc(ud); err == nil {
		sites := whoMayCall(c, "C02-R2", "Controller.UponDecided", mapOf(tf), nil, map[string]string{
			cN + "Controller.ProcessMsg": "the only entry, under IsDecidedMsg",
		})
		c.Min("C02-R2", len(sites), 1, "UponDecided call sites")
	} else {
		c.Undischarged("C02-R2", "anchor:UponDecided", err.Error())
	}
	atCalls(c, "C02-R2", ctrl+"ProcessMsg", cN+"Controller.UponDecided", []Req{
		{"identifier", "ok(" + cN + "Controller.BaseMsgValidation(p0, p2))", "messages of another validator/role must not reach the controller"},
		{"identifier-equal", "T(bytes.Equal(p0.Identifier, p2.Message.Identifier))", ""},
		{"is-decided", "T(" + cN + "IsDecidedMsg(p0.Share, p2))", ""},
	})
	atCalls(c, "C02-R2", ctrl+"ProcessMsg", cN+"Controller.UponExistingInstanceMsg", []Req{
		{"identifier", "ok(" + cN + "Controller.BaseMsgValidation(p0, p2))", ""},
		{"not-future", "F(" + cN + "Controller.isFutureMessage(p0, p2))", "messages of future heights are not processed by an instance"},
	})

	// ---------------- R3
	ensures(c, "C02-R3", instPkg+".(*Instance).UponCommit", "r0=true", []Req{
		{"quorum", "T(ssv-spec/types.Share.HasQuorum(p0.State.Share, len(ssv-spec/qbft.MsgContainer.LongestUniqueSignersForRoundAndRoot(p3, p2.Message.Round, p2.Message.Root)#0)))", "local decision requires a commit quorum for one (round, root)"},
		{"aggregate", "ok(" + iN + "aggregateCommitMsgs(" + iN + "commitQuorumForRoundRoot(p0.State, p3, p2.Message.Root, p2.Message.Round)#1, p0.State.ProposalAcceptedForCurrentRound.FullData))", "the returned certificate aggregates the counted commits and carries the accepted proposal's value"},
	})
	// the proposal the commits refer to: value check and legitimate leader of ITS round
	ensures(c, "C02-R3", instPkg+".isValidProposal", "err=nil", []Req{
		{"leader-of-proposal-round", "T(ssv-spec/qbft.SignedMessage.MatchedSigners(p2, new:[1]ssv-spec/types.OperatorID{0: " + iN + "proposer(p0, p1, p2.Message.Round)}[:]))", "a locally decided value must have been proposed by the legitimate leader of its round"},
		{"value-check", "ok(dyn[p3](p2.FullData))", "a locally decided value must have passed the operator's own value check"},
		{"data-matches-root", "T(bytes.Equal(p2.Message.Root[:], ssv-spec/qbft.HashDataRoot(p2.FullData)#0[:]))", "the value hashes to the root the commits sign"},
	})
	ensures(c, "C02-R3", instPkg+".proposer", "any", []Req{
		{"uses-config-proposer", "called(dyn[ssv/protocol/v2/qbft.IConfig.GetProposerF(p1)](p0, p2))", "the leader must be computed by the configured proposer function for the given state and round"},
	})
	ensures(c, "C02-R3", instPkg+".validateCommit", "err=nil", []Req{
		{"root-of-accepted-proposal", "T(bytes.Equal(p4.Message.Root[:], p1.Message.Root[:]))", "counted commits refer to the accepted proposal"},
	})
	ensures(c, "C02-R3", instPkg+".aggregateCommitMsgs", "err=nil", []Req{
		{"non-empty", "ne(0, len(p0))", "an empty certificate must not be produced"},
	})
	k := atCalls(c, "C02-R3", instPkg+".aggregateCommitMsgs", "ssv-spec/qbft.SignedMessage.Aggregate", nil)
	c.Min("C02-R3", k, 1, "SignedMessage.Aggregate call in aggregateCommitMsgs")
	ensures(c, "C02-R3", spec+"qbft.SignedMessage.Aggregate", "err=nil", []Req{
		{"no-common-signers", "F(ssv-spec/qbft.SignedMessage.CommonSigners(p0, ssv-spec/types.MessageSignature.GetSigners(p1)))", "ssv-spec: aggregation refuses overlapping signers"},
		{"same-root", "T(bytes.Equal(ssv-spec/qbft.SignedMessage.GetRoot(p0)#0[:], ssv-spec/types.Root.GetRoot(p1)#0[:]))", "ssv-spec: aggregation refuses different roots"},
	})
	ensures(c, "C02-R3", ctrl+"UponExistingInstanceMsg", "r0=nonnil,err=nil", []Req{
		{"instance-decided", "T(" + iN + "Instance.ProcessMsg(*)#0)", "a decided message is reported only when the instance reports decided"},
		{"first-time", "F(" + iN + "Instance.IsDecided(" + cN + "Controller.InstanceForHeight(p0, p1, p2.Message.Height))#0)", "reported once"},
	})

	// ---------------- R4
	nSave := 0
	for _, m := range ifaceMethods(c, "C02-R4", ssv+"protocol/v2/qbft/storage.QBFTStore", "Save*") {
		tg, names := methodTargets(c, "C02-R4", ssv+"protocol/v2/qbft/storage.QBFTStore."+m.Name())
		if tg == nil {
			continue
		}
		// the storage implementation's own wrappers may call each other
		sites := callersOf(c, tg, names)
		for _, s := range sites {
			encl := enclName(s.Encl)
			if len(encl) >= len("ssv/ibft/storage.") && encl[:len("ssv/ibft/storage.")] == "ssv/ibft/storage." {
				continue
			}
			nSave++
			c.Decide(encl == cN+"Controller.SaveInstance", "C02-R4", "QBFTStore."+m.Name()+"|caller "+encl, c.P.Pos(s.Instr.Pos()),
				"only Controller.SaveInstance stores instances", "QBFTStore."+m.Name()+" is called from "+encl+": decided instances may only be stored through Controller.SaveInstance")
		}
	}
	c.Min("C02-R4", nSave, 3, "QBFTStore.Save* call sites outside the store")
	if tf, err := c.P.LookupFunc(ctrl + "SaveInstance"); err == nil {
		sites := whoMayCall(c, "C02-R4", "Controller.SaveInstance", mapOf(tf), nil, map[string]string{
			cN + "Controller.UponDecided":                                        "validated decided certificate (R2)",
			"ssv/protocol/v2/ssv/runner.BaseRunner.baseConsensusMsgProcessing":   "after didDecideCorrectly",
			"ssv/protocol/v2/ssv/validator.NonCommitteeValidator.ProcessMessage": "decided != nil from Controller.ProcessMsg",
		})
		c.Min("C02-R4", len(sites), 3, "Controller.SaveInstance call sites")
	}
	atCalls(c, "C02-R4", runnerPkg+".(*BaseRunner).baseConsensusMsgProcessing", cN+"Controller.SaveInstance", []Req{
		{"decided-correctly", "T(ssv/protocol/v2/ssv/runner.BaseRunner.didDecideCorrectly(*)#0)", "only a correct decision of the running instance is saved"},
		{"controller-accepted", "ok(" + cN + "Controller.ProcessMsg(p0.QBFTController, p1, p3))", ""},
	})
	if _, err := c.P.Func(ssv + "protocol/v2/ssv/validator.(*NonCommitteeValidator).ProcessMessage"); err == nil {
		atCalls(c, "C02-R4", ssv+"protocol/v2/ssv/validator.(*NonCommitteeValidator).ProcessMessage", cN+"Controller.SaveInstance", []Req{
			{"decided-nonnil", "nonnil(" + cN + "Controller.ProcessMsg(*)#0)", "only a reported decision is saved"},
			{"controller-accepted", "ok(" + cN + "Controller.ProcessMsg(*))", ""},
		})
	} else {
		c.Undischarged("C02-R4", "anchor:NonCommitteeValidator.ProcessMessage", err.Error())
	}
}

// checkVerifyByOperators: the helper every quorum certificate and every consensus message is
// verified with refuses signers outside the committee and ends in the BLS aggregate check. Shared
// by the properties that rest on "2f+1 signers" meaning 2f+1 committee members (C01, C02, C03).
func checkVerifyByOperators(c *core.Ctx, rule string) {
	ensures(c, rule, ssv+"protocol/v2/types.VerifyByOperators", "err=nil", []Req{
		{"sig-parsed", "ok(github.com/herumi/bls-eth-go-binary/bls.Sign.Deserialize(*, p0))", ""},
		{"all-signers-known", "forall(T(phi(false, *true)))", "a signer that is not in the committee makes verification fail (the per-signer found flag must be true for every signer)"},
		{"root", "ok(ssv-spec/types.ComputeSigningRoot(p1, ssv-spec/types.ComputeSignatureDomain(p2, p3)))", "the root must be computed over the message with the QBFT domain"},
		{"bls", "T(github.com/herumi/bls-eth-go-binary/bls.Sign.FastAggregateVerify(*", ""},
	})
}
