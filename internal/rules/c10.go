package rules

import (
	"fmt"
	"go/ast"
	"go/constant"
	"go/types"
	"sort"
	"strings"

	"golang.org/x/tools/go/ssa"

	"verif/ssvcheck/internal/core"
	"verif/ssvcheck/internal/ens"
)

func init() {
	register(&Check{
		Prop:  "C10",
		Pkgs:  []string{"./..."},
		Setup: mvSetup,
		Explain: "Executions of several operators (every honest message accepted in a fault-free run, round estimation versus real timer firing) are NOT decided. Decided: the emitter/validator agreement that honest traffic depends on. " +
			"(R1) validateJustifications uses instance.IsProposalJustification, which delegates to the same isProposalJustification that the emitter side (isValidProposal / leader proposal) uses; " +
			"(R2) currentEstimatedRound references the very constant objects roundtimer.QuickTimeout / SlowTimeout / QuickTimeoutThreshold that roundtimer.New installs as timer defaults; the error returned above maxRound(role) is ignore-class (maxRound is below the instance cut-off, so honest late rounds may exceed it); " +
			"(R3) classification rule: every validation.Error returned under a guard that depends on the receive time / wall clock or on the mutable per-signer state is ignore-class (timing and ordering may differ between correct nodes, misbehaviour cannot) — with the two reviewed exceptions ErrDuplicatedProposalWithDifferentData (equivocation) and ErrTooManyDutiesPerEpoch; per-round signer state (counts, proposal data) is cleared on every round and slot change, so honest later-round messages are not compared with an earlier round; " +
			"(R4) emitter shape versus gate: aggregated commit signers are sorted by the emitter and required sorted by the gate; honest single-signer messages carry exactly the operator's own id; the decided-message allowance is n·(f+1).",
		Rules: []string{
			"C10-R1 call-site identity: validateJustifications → instance.IsProposalJustification → isProposalJustification",
			"C10-R2 constant-object identity between currentEstimatedRound and roundtimer.New; ErrRoundTooHigh is ignore-class",
			"C10-R3 for every return of a validation.Error global: guard depends on clock/history ⇒ reject flag unset (exceptions frozen); Reset* clear per-round state",
			"C10-R4 sort at the emitter / IsSorted at the gate; signer literals; maxDecidedCount normal form",
			"C10-R5 tick expiry of the proposer / sync-committee duty stores (read by validateBeaconDuty) wipes only a finished scope",
		},
		Trusted: []string{"go/types + go/ssa", "hand-confirmed exception list (internal/rules/c10.go)"},
		Assume:  []string{"observation (not armed): ErrNoDuty (proposer) is reject-class and depends on the local duty store, its sync-committee sibling ErrNoDutyIgnored is ignore-class; beacon-node fetch lag is outside the property's timing premise"},
		Run:     runC10,
	})
}

func runC10(c *core.Ctx) {
	mvf := mvPkg + ".(*messageValidator)."
	// the per-signer state an honest sender is judged against is read and written under one
	// per-message-id lock (without it an in-flight proposal is recorded into the next round's state and
	// the honest decided message of that round is rejected as an equivocation)
	checkValidationLocks(c, "C10-R3")
	// ---------------- R5: the duty stores that validation consults (proposer: "no duty" is
	// reject-class; sync committee) are expired by their handlers only for a scope that is over:
	// wiping the CURRENT epoch / period on a tick makes every in-window message of a correct
	// proposer look duty-less
	for _, typ := range []string{"ProposerHandler", "SyncCommitteeHandler"} {
		f := fn(c, "C10-R5", dutiesPkg+".(*"+typ+").HandleDuties")
		if f == nil {
			continue
		}
		n := 0
		for _, s := range callsIn(f, "ssv/operator/duties/dutystore.*.Reset*") {
			facts := s.Facts(c)
			if len(s.Via) > 0 || facts == nil || !isTickerCase(facts) {
				continue // replace-on-fetch inside fetchAndProcessDuties re-adds at once; reorg / indices-change resets are re-fetched (C16-R4)
			}
			n++
			args := s.Instr.Common().Args
			arg := s.Arg(c, len(args)-1).String()
			c.Decide(reScopePast.MatchString(arg), "C10-R5", typ+".HandleDuties|tick expiry wipes a finished scope only", c.P.Pos(s.Instr.Pos()), clip(arg),
				"on a slot tick "+typ+" wipes "+clip(arg)+", which is not the previous epoch/period: duties whose messages are still inside their validation window disappear from the store the message validator consults, and correct operators' messages are classified 'no duty'")
		}
		c.Min("C10-R5", n, 1, typ+" tick expiry")
	}
	for _, g := range []string{"ssv/operator/duties/dutystore.Duties.ValidatorDuty", "ssv/operator/duties/dutystore.SyncCommitteeDuties.Duty"} {
		k := atCalls(c, "C10-R5", mvf+"validateBeaconDuty", g+"*", nil)
		c.Min("C10-R5", k, 1, "duty-store lookup "+short(g)+" in validateBeaconDuty")
	}
	// ---------------- R1
	k := atCalls(c, "C10-R1", mvf+"validateJustifications", iN+"IsProposalJustification", nil)
	c.Min("C10-R1", k, 1, "IsProposalJustification call in validateJustifications")
	if f := fn(c, "C10-R1", instPkg+".IsProposalJustification"); f != nil {
		sites := callsIn(f, iN+"isProposalJustification")
		ok := false
		for _, s := range sites {
			got := c.E.Analyze(f).D.Call(s.Instr).String()
			if ens.Glob(iN+"isProposalJustification(new:ssv-spec/qbft.State{Height: p4, Share: p1.Share}, p0, p2, p3, p4, p5, p6, *)", got) {
				ok = true
			}
		}
		c.Decide(ok, "C10-R1", "IsProposalJustification|delegates to the instance's own predicate with the message's arguments", c.P.Pos(f.Pos()), "isProposalJustification(state{share,height}, cfg, rcj, pj, height, round, fullData, …)", "the gossip justification check is no longer the predicate honest operators are validated with by their peers' instances")
	}
	for _, caller := range []string{"isValidProposal", "isReceivedProposalJustification"} {
		k := atCalls(c, "C10-R1", instPkg+"."+caller, iN+"isProposalJustification", nil)
		c.Min("C10-R1", k, 1, caller+" → isProposalJustification")
	}

	// ---------------- R2
	checkTimeoutConstants(c)
	flags := errorFlags(c)
	if fl, ok := flags["ErrRoundTooHigh"]; ok {
		c.Decide(!fl, "C10-R2", "ErrRoundTooHigh|ignore-class", "", "reject unset", "ErrRoundTooHigh is reject-class although maxRound(role) is below the instance cut-off round: an honest operator in a late round would be penalised")
	} else {
		c.Undischarged("C10-R2", "anchor:ErrRoundTooHigh", "error value not found")
	}
	// maxRound table vs cut-off: every consensus role's maxRound is below CutoffRound (so the ignore class is what protects honest senders)
	ensures(c, "C10-R2", mvf+"validateConsensusMessage", "err=nil", []Req{
		{"round-max", "le(p2.Message.Round, " + mvM + "maxRound(p0, ssv-spec/types.MessageID.GetRoleType*(p3)))", ""},
	})

	// ---------------- R3
	checkErrorClasses(c, flags)
	checkResets(c, "C10-R3")

	// ---------------- R4
	k = atCalls(c, "C10-R4", instPkg+".aggregateCommitMsgs", "sort.Slice", nil)
	c.Min("C10-R4", k, 1, "sort of aggregated signers at the emitter")
	ensures(c, "C10-R4", mvf+"validConsensusSigners", "err=nil", []Req{{"gate-requires-sorted", "T(golang.org/x/exp/slices.IsSorted(p2.Signers))", ""}})
	for _, cr := range []string{"CreateProposal", "CreatePrepare", "CreateCommit", "CreateRoundChange"} {
		f := fn(c, "C10-R4", instPkg+"."+cr)
		if f == nil {
			continue
		}
		a := c.E.Analyze(f)
		exits, _ := a.Exits("err=nil")
		ok := len(exits) > 0
		for _, ex := range exits {
			s := a.D.D(ex.Ret.Results[0]).String()
			if !strings.Contains(s, "Signers: new:[1]ssv-spec/types.OperatorID{0: p0.Share.OperatorID}[:]") {
				ok = false
			}
		}
		c.Decide(ok, "C10-R4", cr+"|signers = [own operator id]", c.P.Pos(f.Pos()), "single own signer", cr+" does not emit exactly the operator's own id as the single signer: peers' gates (single signer ∈ committee, leader check) would refuse honest messages")
	}
	if f := fn(c, "C10-R4", mvPkg+".maxDecidedCount"); f != nil {
		a := c.E.Analyze(f)
		exits, _ := a.Exits("any")
		got := ""
		if len(exits) == 1 {
			got = canonArith(a.D.D(exits[0].Ret.Results[0]))
		}
		c.Decide(got == "((((p0 - 1) / 3) + 1) * p0)", "C10-R4", "maxDecidedCount|n*(f+1)", c.P.Pos(f.Pos()), got, "the decided-message allowance is "+got+", honest committees can emit n·(f+1) distinct decided messages per round")
	}
}

// errorFlags reads the reject flag of every package-level validation.Error
// value from its composite literal.
func errorFlags(c *core.Ctx) map[string]bool {
	out := map[string]bool{}
	pk := c.P.Pkg(mvPkg)
	if pk == nil {
		c.Undischarged("C10-R3", "anchor:message/validation", "package not loaded")
		return out
	}
	for _, file := range pk.Syntax {
		for _, d := range file.Decls {
			gd, ok := d.(*ast.GenDecl)
			if !ok {
				continue
			}
			for _, sp := range gd.Specs {
				vs, ok := sp.(*ast.ValueSpec)
				if !ok {
					continue
				}
				for i, nm := range vs.Names {
					if i >= len(vs.Values) {
						continue
					}
					cl, ok := vs.Values[i].(*ast.CompositeLit)
					if !ok {
						continue
					}
					tv := pk.TypesInfo.Types[cl]
					if n, ok := tv.Type.(*types.Named); !ok || n.Obj().Name() != "Error" {
						continue
					}
					rej := false
					for _, el := range cl.Elts {
						if kv, ok := el.(*ast.KeyValueExpr); ok {
							if id, ok := kv.Key.(*ast.Ident); ok && id.Name == "reject" {
								if v := pk.TypesInfo.Types[kv.Value].Value; v != nil && v.Kind() == constant.Bool {
									rej = constant.BoolVal(v)
								}
							}
						}
					}
					out[nm.Name] = rej
				}
			}
		}
	}
	return out
}

var classExceptions = map[string]string{
	"ErrDuplicatedProposalWithDifferentData": "equivocation: two different proposals by one signer in one round are misbehaviour whatever the arrival order",
	"ErrTooManyDutiesPerEpoch":               "limit is sized above what reorgs produce",
}

// checkErrorClasses implements C10-R3.
func checkErrorClasses(c *core.Ctx, flags map[string]bool) {
	type site struct {
		name, pos, fn string
		clock, hist   bool
		guard         string
	}
	var sites []site
	for _, f := range c.P.SourceFuncs(mvPkg) {
		a := c.E.Analyze(f)
		for _, b := range f.Blocks {
			ret, ok := b.Instrs[len(b.Instrs)-1].(*ssa.Return)
			if !ok || len(ret.Results) == 0 {
				continue
			}
			last := ret.Results[len(ret.Results)-1]
			n := a.D.D(last)
			if n.K != "global" || !strings.HasPrefix(n.L, mvN+"Err") {
				continue
			}
			name := strings.TrimPrefix(n.L, mvN)
			// immediate guard: conditions on the unique-predecessor chain into this block
			var guards []*ens.Node
			var collect func(blk *ssa.BasicBlock, depth int)
			collect = func(blk *ssa.BasicBlock, depth int) {
				for _, q := range blk.Preds {
					if iff, ok := q.Instrs[len(q.Instrs)-1].(*ssa.If); ok {
						guards = append(guards, a.D.D(iff.Cond))
					} else if depth < 2 {
						collect(q, depth+1)
					}
				}
			}
			collect(b, 0)
			st := site{name: name, pos: c.P.Pos(ret.Pos()), fn: enclName(f)}
			for _, g := range guards {
				st.guard += g.String() + " ; "
				g.Walk(func(m *ens.Node) {
					if m.T != nil {
						ts := typeStr(m.T)
						if strings.Contains(ts, "time.Time") && m.K == "param" {
							st.clock = true
						}
						if strings.Contains(ts, "validation.SignerState") || strings.Contains(ts, "validation.MessageCounts") || strings.Contains(ts, "validation.ConsensusState") {
							st.hist = true
						}
					}
					if m.K == "call" && (m.L == "time.Now" || strings.HasSuffix(m.L, ".EstimatedCurrentSlot") || strings.HasSuffix(m.L, ".EstimatedCurrentEpoch") ||
						strings.HasSuffix(m.L, ".earlyMessage") || strings.HasSuffix(m.L, ".lateMessage") || strings.HasSuffix(m.L, ".currentEstimatedRound")) {
						st.clock = true
					}
				})
			}
			sites = append(sites, st)
		}
	}
	sort.Slice(sites, func(i, j int) bool { return sites[i].name+sites[i].pos < sites[j].name+sites[j].pos })
	nClock, nHist := 0, 0
	seen := map[string]int{}
	for _, s := range sites {
		if !s.clock && !s.hist {
			continue
		}
		if s.clock {
			nClock++
		}
		if s.hist {
			nHist++
		}
		seen[s.name+"|"+s.fn]++
		construct := fmt.Sprintf("%s returned in %s#%d", s.name, s.fn, seen[s.name+"|"+s.fn])
		rej, known := flags[s.name]
		kind := "clock"
		if s.hist && !s.clock {
			kind = "per-signer history"
		} else if s.hist {
			kind = "clock and per-signer history"
		}
		if !known {
			c.Undischarged("C10-R3", construct, "reject flag of "+s.name+" not found")
			continue
		}
		if why, ex := classExceptions[s.name]; ex {
			c.OK("C10-R3", construct, s.pos, "reviewed exception ("+why+")")
			continue
		}
		c.Decide(!rej, "C10-R3", construct, s.pos, "ignore-class under a "+kind+" dependent guard",
			fmt.Sprintf("%s is reject-class but is returned under a guard that depends on the %s (%s): correct peers can disagree on it, and the sender of an honest message would be penalised", s.name, kind, clip(s.guard)))
	}
	c.Min("C10-R3", nClock, 4, "clock-dependent error returns")
	c.Min("C10-R3", nHist, 4, "history-dependent error returns")
}

func typeStr(t types.Type) string { return types.TypeString(t, nil) }

// checkTimeoutConstants: currentEstimatedRound and roundtimer.New use the
// same constant objects.
func checkTimeoutConstants(c *core.Ctx) {
	want := map[string]bool{"QuickTimeout": false, "SlowTimeout": false, "QuickTimeoutThreshold": false}
	usesIn := func(pkgPath, fnName string) map[string]bool {
		out := map[string]bool{}
		pk := c.P.Pkg(pkgPath)
		if pk == nil {
			return out
		}
		for _, file := range pk.Syntax {
			for _, d := range file.Decls {
				fd, ok := d.(*ast.FuncDecl)
				if !ok || fd.Name.Name != fnName || fd.Body == nil {
					continue
				}
				ast.Inspect(fd.Body, func(n ast.Node) bool {
					id, ok := n.(*ast.Ident)
					if !ok {
						return true
					}
					if obj, ok := pk.TypesInfo.Uses[id].(*types.Const); ok && obj.Pkg() != nil && obj.Pkg().Path() == rtPkg {
						out[obj.Name()] = true
					}
					return true
				})
			}
		}
		return out
	}
	gate := usesIn(mvPkg, "currentEstimatedRound")
	timer := usesIn(rtPkg, "New")
	for name := range want {
		c.Decide(gate[name] && timer[name], "C10-R2", "timeout constant "+name+"|shared by the round-window estimate and the round timer", "", "same constant object in both", fmt.Sprintf("roundtimer.%s is used by the validator's round estimate: %v, by the timer defaults: %v — the round window would drift from the rounds honest timers produce", name, gate[name], timer[name]))
	}
}
