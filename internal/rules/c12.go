package rules

import (
	"fmt"
	"go/types"
	"sort"
	"strings"

	"golang.org/x/tools/go/ssa"

	"verif/ssvcheck/internal/core"
	"verif/ssvcheck/internal/ens"
)

const ehPkg = ssv + "eth/eventhandler"
const ehN = "ssv/eth/eventhandler."
const nsN = "ssv/operator/storage.Storage."

func init() {
	register(&Check{
		Prop: "C12",
		Pkgs: []string{"./..."},
		Explain: "Crash points are not enumerated (NOT decided). Given Badger transaction atomicity (trusted), atomic exactly-once block processing reduces to a discipline visible in the code, which is decided: " +
			"(R1) transaction threading — every call in eth/eventhandler that passes a basedb.ReadWriter to a storage API passes the block transaction (the function's own txn parameter, or the Begin() result in the two entry points), never nil or another handle; " +
			"(R2) processBlockEvents: success implies GetLastProcessedBlock(txn) ok, lastProcessed < block.Number (refusal on >=), every log processed ok, SaveLastProcessedBlock(txn, block.Number) ok and only then txn.Commit ok; Discard is deferred; processEvent propagates handler errors (aborting the block) except MalformedEventError/parse errors; " +
			"(R3) the side effects outside the transaction reachable from the handlers are exactly the allow-listed ones, and the wallet ones are idempotent by shape: in ekm.AddShare all writes are under acc==nil and the account (the idempotence marker) is saved after the slashing-protection records; in RemoveShare the deletions are under acc!=nil; " +
			"(R4) resume point: the block handed to SyncHistory is lastProcessed+1 (or the configured offset when nothing was processed) and SyncOngoing continues at SyncHistory's result+1.",
		Rules: []string{
			"C12-R1 provenance(arg of every basedb.ReadWriter parameter in eth/eventhandler) ∈ {own txn parameter, Begin()}; no access bypasses a given handle; badgerTxn methods open no transaction of their own",
			"C12-R2 Ens(processBlockEvents|ok) ⊇ ordered commit protocol; facts-before(Commit) ∋ marker saved",
			"C12-R3 out-of-transaction effects ⊆ allow-list; idempotence shapes of ekm.AddShare/RemoveShare",
			"C12-R4 stores to the resume cursor ∈ {last+1, offset, synced+1}",
		},
		Trusted: []string{"Badger transaction atomicity and durability", "go/types + go/ssa"},
		Assume:  []string{"idempotence of CleanAllInstances under replay is argued, not decided"},
		Run:     runC12,
	})
}

// basedbKind classifies a parameter type of storage/basedb.
func basedbKind(t types.Type) string {
	n, ok := t.(*types.Named)
	if !ok || n.Obj().Pkg() == nil || n.Obj().Pkg().Path() != ssv+"storage/basedb" {
		return ""
	}
	switch n.Obj().Name() {
	case "Reader", "ReadTxn":
		return "read"
	case "ReadWriter", "Txn":
		return "write"
	}
	return ""
}

type txnArg struct {
	encl  *ssa.Function
	instr ssa.CallInstruction
	label string
	kind  string
	arg   ssa.Value
}

// txnArgs lists every call in pkg whose callee has a basedb handle parameter.
func txnArgs(c *core.Ctx, pkgPath string) []txnArg {
	var out []txnArg
	for _, f := range c.P.SourceFuncs(pkgPath) {
		for _, b := range f.Blocks {
			for _, in := range b.Instrs {
				ci, ok := in.(ssa.CallInstruction)
				if !ok {
					continue
				}
				cc := ci.Common()
				sig := cc.Signature()
				if sig == nil {
					continue
				}
				off := 0
				if !cc.IsInvoke() && sig.Recv() != nil {
					off = 1 // static method call: receiver is Args[0]
				}
				for i := 0; i < sig.Params().Len(); i++ {
					k := basedbKind(sig.Params().At(i).Type())
					if k == "" || i+off >= len(cc.Args) {
						continue
					}
					out = append(out, txnArg{f, ci, callLabel(cc), k, cc.Args[i+off]})
				}
			}
		}
	}
	sort.Slice(out, func(i, j int) bool { return out[i].instr.Pos() < out[j].instr.Pos() })
	return out
}

// checkTxnThreading: rule shared by C12-R1 (writes) and C11-R5 (reads).
func checkTxnThreading(c *core.Ctx, rule, kind string) int {
	n := 0
	seen := map[string]int{}
	for _, ta := range txnArgs(c, ehPkg) {
		if ta.kind != kind {
			continue
		}
		n++
		a := c.E.Analyze(ta.encl)
		node := a.D.D(ta.arg)
		encl := ens.SSAFuncName(ta.encl)
		key := fmt.Sprintf("%s|%s", encl, ta.label)
		seen[key]++
		construct := fmt.Sprintf("%s#%d|handle", key, seen[key])
		ok, why := false, ""
		switch {
		case node.K == "param":
			// must be a parameter of a basedb type of the enclosing function
			idx := atoiSafe(node.L)
			if idx >= 0 && idx < len(ta.encl.Params) && basedbKind(ta.encl.Params[idx].Type()) != "" {
				ok = true
			} else {
				why = "the handle is a parameter that is not a database handle"
			}
		case node.K == "call" && strings.HasSuffix(node.L, ".Begin"):
			ok = true
		case node.K == "const" && node.L == "nil":
			why = "nil handle: the call goes directly to the database, outside the block transaction (effects survive a rollback / reads miss earlier events of the same block)"
		default:
			why = "handle does not slice back to the block transaction: " + clip(node.String())
		}
		c.Decide(ok, rule, construct, c.P.Pos(ta.instr.Pos()), "receives the block transaction ("+node.String()+")", fmt.Sprintf("%s in %s: %s", ta.label, encl, why))
	}
	return n
}

func atoiSafe(s string) int {
	v := 0
	if s == "" {
		return -1
	}
	for _, ch := range s {
		if ch < '0' || ch > '9' {
			return -1
		}
		v = v*10 + int(ch-'0')
	}
	return v
}

func runC12(c *core.Ctx) {
	// ---------------- R1
	n := checkTxnThreading(c, "C12-R1", "write")
	c.Min("C12-R1", n, 7, "storage write calls in eth/eventhandler")
	// … and the storage layer really uses the handle it is given: a write issued on the Database
	// itself commits at once, outside the block transaction (it survives the rollback of a block
	// that is then re-delivered)
	c.Min("C12-R1", checkNoHandleBypass(c, "C12-R1"), 10, "data accesses in registry/operator storage functions that take a handle")

	// ---------------- R2
	pbe := ehPkg + ".(*EventHandler).processBlockEvents"
	begin := nsN + "Begin(p0.nodeStorage)"
	ensures(c, "C12-R2", pbe, "err=nil", []Req{
		{"read-marker-in-txn", "ok(" + nsN + "GetLastProcessedBlock(p0.nodeStorage, " + begin + "))", "the marker must be read through the transaction"},
		{"newer-block-only", "lt(math/big.Int.Uint64(*), p1.BlockNumber)", "a block that is not newer than the last processed one must be refused (>=)"},
		{"all-events-ok", "forall(ok(" + ehN + "EventHandler.processEvent(p0, " + begin + ", p1.Logs[_])))", "an event error must abort the block"},
		{"marker-saved-in-txn", "ok(" + nsN + "SaveLastProcessedBlock(p0.nodeStorage, " + begin + ", math/big.Int.SetUint64(*, p1.BlockNumber)))", "the marker of THIS block must be saved in the same transaction"},
		{"committed", "ok(ssv/storage/basedb.Txn.Commit(" + begin + "))", "success without commit loses the block"},
		{"discard-deferred", "deferred(ssv/storage/basedb.Txn.Discard(" + begin + "))", "every error exit must roll the transaction back"},
	})
	ensures(c, "C12-R2", pbe, "any", []Req{
		{"discard-deferred", "deferred(ssv/storage/basedb.Txn.Discard(" + begin + "))", "every exit must roll back what was not committed"},
	})
	k := atCalls(c, "C12-R2", pbe, "ssv/storage/basedb.Txn.Commit", []Req{
		{"marker-before-commit", "ok(" + nsN + "SaveLastProcessedBlock(p0.nodeStorage, " + begin + ", *))", "the marker must be written before the commit"},
		{"events-before-commit", "forall(ok(" + ehN + "EventHandler.processEvent(p0, " + begin + ", p1.Logs[_])))", "all events are applied before the commit"},
		{"guard-before-commit", "lt(math/big.Int.Uint64(*), p1.BlockNumber)", ""},
	})
	c.Min("C12-R2", k, 1, "Commit call in processBlockEvents")
	atCalls(c, "C12-R2", pbe, ehN+"EventHandler.processEvent", []Req{
		{"guard-before-events", "lt(math/big.Int.Uint64(*), p1.BlockNumber)", "no event of an old block may be applied"},
	})
	// (that a block which is not newer is refused before anything is applied follows from
	// guard-before-events / guard-before-commit: no event and no commit without the strict guard)
	// error propagation of processEvent: handler errors that are not malformed abort
	checkProcessEventOutcomes(c)

	// ---------------- R3
	checkOutsideEffects(c)
	ekmAdd := ssv + "ekm.(*ethKeyManagerSigner).AddShare"
	for _, callee := range []string{"ssv/ekm.ethKeyManagerSigner.saveShare", "ssv/ekm.ethKeyManagerSigner.BumpSlashingProtection"} {
		atCalls(c, "C12-R3", ekmAdd, callee, []Req{
			{"only-if-absent", "isnil(github.com/bloxapp/eth2-key-manager/core.Wallet.AccountByPublicKey(*)#0) || isnil(*AccountByPublicKey(*)#0)", "AddShare must only write when the account does not exist yet (replay of the block must be a no-op)"},
		})
	}
	k = atCalls(c, "C12-R3", ekmAdd, "ssv/ekm.ethKeyManagerSigner.saveShare", []Req{
		{"records-before-account", "ok(ssv/ekm.ethKeyManagerSigner.BumpSlashingProtection(p0, *))", "the account is the idempotence marker: it must be saved only after the slashing-protection records exist, or a crash in between leaves a key without protection that replay will not repair"},
	})
	c.Min("C12-R3", k, 1, "saveShare call in ekm.AddShare")
	// the idempotence marker is looked up by the key form it is indexed by
	if f := fn(c, "C12-R3", ekmAdd); f != nil {
		a := c.E.Analyze(f)
		for _, cs := range callsIn(f, "eth2-key-manager/core.Wallet.AccountByPublicKey") {
			got := a.D.Call(cs.Instr).String()
			want := "eth2-key-manager/core.Wallet.AccountByPublicKey(p0.wallet, github.com/herumi/bls-eth-go-binary/bls.PublicKey.SerializeToHexStr(github.com/herumi/bls-eth-go-binary/bls.SecretKey.GetPublicKey*(p1)))"
			c.Decide(ens.Glob(want, got), "C12-R3", "ekm.AddShare|marker looked up by hex(serialised public key)", c.P.Pos(cs.Instr.Pos()), got,
				"AddShare looks for the existing account by "+got+", not by the form the wallet indexes it by: the lookup never matches, AddShare stops being idempotent and the replay of a block after a crash stores the key share a second time")
		}
	}
	ekmRm := ssv + "ekm.(*ethKeyManagerSigner).RemoveShare"
	k = 0
	for _, callee := range []string{"*.RemoveHighestAttestation", "*.RemoveHighestProposal", "*.DeleteAccountByPublicKey"} {
		k += atCalls(c, "C12-R3", ekmRm, callee, []Req{
			{"only-if-present", "nonnil(*AccountByPublicKey(*)#0)", "RemoveShare must be a no-op when the account is already gone"},
		})
	}
	c.Min("C12-R3", k, 3, "deletions in ekm.RemoveShare")
	// "account not found" is the idempotent case, not an error: a block whose key-manager effect
	// already happened before a crash must be re-appliable (otherwise the node is stuck on it)
	for _, x := range []struct{ fn, lookup string }{
		{ekmRm, "eth2-key-manager/core.Wallet.AccountByPublicKey(p0.wallet, p1)"},
		{ekmAdd, "eth2-key-manager/core.Wallet.AccountByPublicKey(p0.wallet, github.com/herumi/bls-eth-go-binary/bls.PublicKey.SerializeToHexStr(github.com/herumi/bls-eth-go-binary/bls.SecretKey.GetPublicKey(p1)))"},
	} {
		nx := ensuresIf(c, "C12-R3", x.fn, "err=nonnil", "the existence lookup failed", "fail("+x.lookup+")", []Req{
			{"not-found-is-not-an-error", "ne(\"account not found\", .error.Error(" + x.lookup + "#1))", "a missing account must lead to the no-op success path"},
		})
		c.Min("C12-R3", nx, 1, "lookup-failure exit of "+short(x.fn))
	}

	// ---------------- R4
	checkResumePoint(c)
}

// checkProcessEventOutcomes: in processEvent, for each of the 8 handlers the
// error return that wraps the handler's error is taken exactly when the
// error is not a MalformedEventError; parse errors and malformed events
// return (nil, nil).
func checkProcessEventOutcomes(c *core.Ctx) {
	pe := ehPkg + ".(*EventHandler).processEvent"
	f := fn(c, "C12-R2", pe)
	if f == nil {
		return
	}
	handlers := []string{"handleOperatorAdded", "handleOperatorRemoved", "handleValidatorAdded", "handleValidatorRemoved", "handleClusterLiquidated", "handleClusterReactivated", "handleFeeRecipientAddressUpdated", "handleValidatorExited"}
	a := c.E.Analyze(f)
	okExits, _ := a.Exits("err=nil")
	errExits, _ := a.Exits("err=nonnil")
	for _, h := range handlers {
		label := ehN + "EventHandler." + h
		sites := callsIn(f, label)
		if len(sites) != 1 {
			c.Undischarged("C12-R2", "processEvent|"+h, fmt.Sprintf("expected exactly one call of %s, found %d", h, len(sites)))
			continue
		}
		// (a) some error exit exists on which this handler failed and the error was not malformed
		propagated := false
		for _, ex := range errExits {
			if _, ok := ex.Facts.Has("fail(" + label + "(*"); ok {
				if _, isMal := ex.Facts.Has("T(errors.As(*"); !isMal {
					propagated = true
				}
			}
		}
		c.Decide(propagated, "C12-R2", "processEvent|"+h+"|error-propagated", c.P.Pos(sites[0].Instr.Pos()),
			"a non-malformed handler error is returned (aborts the block)", "errors of "+h+" are not propagated: a failed storage/key-manager operation would be skipped and the block committed half-applied")
		// (b) no accept exit on which the handler failed with a non-malformed error
		swallowed := ""
		for _, ex := range okExits {
			if _, failed := ex.Facts.Has("fail(" + label + "(*"); failed {
				if _, isMal := ex.Facts.Has("T(errors.As(*"); !isMal {
					swallowed = c.P.Pos(ex.Ret.Pos())
				}
			}
		}
		c.Decide(swallowed == "", "C12-R2", "processEvent|"+h+"|error-not-swallowed", c.P.Pos(sites[0].Instr.Pos()),
			"every (nil) return after a failed handler is under errors.As(MalformedEventError)", "exit "+swallowed+" returns nil although "+h+" failed with a non-malformed error")
	}
}

// checkOutsideEffects: calls made by the handlers that have effects outside
// the block transaction — through the key manager, the QBFT stores and the
// operator data store — are exactly the allow-listed ones.
func checkOutsideEffects(c *core.Ctx) {
	allow := map[string]string{
		"ssv-spec/types.KeyManager.AddShare|" + ehN + "EventHandler.handleShareCreation":                              "idempotent (only if absent)",
		"ssv-spec/types.KeyManager.RemoveShare|" + ehN + "EventHandler.handleValidatorRemoved":                        "idempotent (only if present)",
		"ssv/ekm.StorageProvider.BumpSlashingProtection|" + ehN + "EventHandler.handleClusterReactivated":             "monotone (never lowers a record)",
		"ssv/ibft/storage.QBFTStores.Each|" + ehN + "EventHandler.handleValidatorRemoved":                             "re-executed on replay",
		"ssv/protocol/v2/qbft/storage.QBFTStore.CleanAllInstances|" + ehN + "EventHandler.handleValidatorRemoved":     "re-executed on replay",
		"ssv/protocol/v2/qbft/storage.InstanceStore.CleanAllInstances|" + ehN + "EventHandler.handleValidatorRemoved": "re-executed on replay",
		"ssv/operator/datastore.OperatorDataStore.SetOperatorData|" + ehN + "EventHandler.handleOperatorAdded":        "in-memory cache of the own operator",
	}
	n := 0
	for _, f := range c.P.SourceFuncs(ehPkg) {
		top := ens.SSAFuncName(topFunc(f))
		if !strings.HasPrefix(top, ehN+"EventHandler.handle") && !strings.HasPrefix(top, ehN+"EventHandler.process") && !strings.HasPrefix(top, ehN+"EventHandler.validat") {
			continue
		}
		a := c.E.Analyze(f)
		for _, b := range f.Blocks {
			for _, in := range b.Instrs {
				ci, ok := in.(ssa.CallInstruction)
				if !ok {
					continue
				}
				cc := ci.Common()
				l := callLabel(cc)
				var recv *ens.Node
				if cc.IsInvoke() {
					recv = a.D.D(cc.Value)
				} else if len(cc.Args) > 0 && cc.Signature().Recv() != nil {
					recv = a.D.D(cc.Args[0])
				}
				if recv == nil {
					continue
				}
				rs := recv.String()
				effect := false
				for _, fld := range []string{".keyManager", ".storageMap", ".beacon", ".taskExecutor"} {
					if strings.Contains(rs, "p0"+fld) || strings.HasSuffix(rs, fld) {
						effect = true
					}
				}
				if strings.Contains(rs, ".operatorDataStore") && strings.Contains(l, ".Set") {
					effect = true
				}
				if strings.HasSuffix(l, ".CleanAllInstances") {
					effect = true
				}
				if !effect {
					continue
				}
				n++
				key := l + "|" + top
				why, ok := allow[key]
				c.Decide(ok, "C12-R3", "outside-effect "+key, c.P.Pos(ci.Pos()), "allow-listed: "+why,
					fmt.Sprintf("%s performs %s outside the block transaction; only the reviewed idempotent effects are allowed (a rollback or replay cannot undo/redo it consistently)", top, l))
			}
		}
	}
	c.Min("C12-R3", n, 5, "out-of-transaction effects in the event handlers")
}

// checkResumePoint: the cursor variable handed to SyncHistory / SyncOngoing
// in setupEventHandling only ever holds lastProcessed, lastProcessed+1, the
// configured offset or synced+1; and the value handed to SyncHistory on the
// found path is the +1 form.
func checkResumePoint(c *core.Ctx) {
	spec := ssv + "cli/operator.setupEventHandling"
	f, err := c.P.Func(spec)
	if err != nil {
		c.Undischarged("C12-R4", "anchor:setupEventHandling", err.Error())
		return
	}
	sites := callsIn(f, "ssv/eth/eventsyncer.EventSyncer.SyncHistory")
	if len(sites) != 1 {
		c.Undischarged("C12-R4", "setupEventHandling|SyncHistory", "expected one SyncHistory call")
		return
	}
	// the cursor alloc: arg is Uint64(load alloc)
	var cursor *ssa.Alloc
	args := sites[0].Instr.Common().Args
	if call, ok := args[len(args)-1].(*ssa.Call); ok && len(call.Call.Args) == 1 {
		if ld, ok := call.Call.Args[0].(*ssa.UnOp); ok {
			cursor, _ = ld.X.(*ssa.Alloc)
		}
	}
	if cursor == nil {
		c.Undischarged("C12-R4", "setupEventHandling|cursor", "the resume cursor is no longer a local variable read at the SyncHistory call")
		return
	}
	a := c.E.Analyze(f)
	get := nsN + "GetLastProcessedBlock(p7, nil)#0"
	allowed := map[string]string{
		get:                     "raw marker (replaced before use on the found path)",
		"p6.RegistrySyncOffset": "configured start when nothing was processed yet",
		"math/big.Int.SetUint64*(new:math/big.Int, (math/big.Int.Uint64*(" + get + ") + 1))":                "last processed + 1",
		"math/big.Int.SetUint64*(new:math/big.Int, (math/big.Int.Uint64*(local:*) + 1))":                    "last processed + 1 (cursor holds the raw marker at this point)",
		"math/big.Int.SetUint64*(new:math/big.Int, (ssv/eth/eventsyncer.EventSyncer.SyncHistory(*)#0 + 1))": "synced + 1",
	}
	n := 0
	plus1 := false
	for _, g := range funcsWithAnon(f) {
		for _, b := range g.Blocks {
			for _, in := range b.Instrs {
				st, ok := in.(*ssa.Store)
				if !ok || st.Addr != ssa.Value(cursor) {
					continue
				}
				n++
				v := c.E.Analyze(g).D.D(st.Val).String()
				_ = a
				okv := false
				for pat := range allowed {
					if pat == v || ens.Glob(pat, v) {
						okv = true
					}
				}
				if ens.Glob("math/big.Int.SetUint64*(new:math/big.Int, (math/big.Int.Uint64*(*) + 1))", v) && !strings.Contains(v, "SyncHistory") {
					plus1 = true
					facts := c.E.Analyze(g).FactsAt(st)
					_, found := facts.Has("T(" + nsN + "GetLastProcessedBlock(p7, nil)#1)")
					c.Decide(found, "C12-R4", "setupEventHandling|cursor=last+1|only-when-found", c.P.Pos(st.Pos()), "under found==true", "last+1 must be used exactly when a marker was found")
				}
				c.Decide(okv, "C12-R4", fmt.Sprintf("setupEventHandling|cursor store#%d", n), c.P.Pos(st.Pos()), clip(v),
					"the resume cursor is assigned "+clip(v)+": it must be last processed + 1, the configured offset, or the synced block + 1 (anything else skips or replays blocks after a restart)")
			}
		}
	}
	c.Min("C12-R4", n, 4, "assignments of the resume cursor")
	c.Decide(plus1, "C12-R4", "setupEventHandling|resume-from-last+1", c.P.Pos(f.Pos()), "found path resumes from last processed + 1", "no assignment of last processed + 1 to the resume cursor")
	// on the path where the marker was found, the raw marker must have been replaced
	facts := a.FactsAt(sites[0].Instr)
	_, h := facts.Has("called(math/big.Int.Uint64@3(*))")
	_ = h
	so := callsIn(f, "ssv/eth/eventsyncer.EventSyncer.SyncOngoing")
	c.Min("C12-R4", len(so), 1, "SyncOngoing call")
}
