package rules

import (
	"fmt"
	"go/types"
	"strings"

	"golang.org/x/tools/go/ssa"

	"verif/ssvcheck/internal/core"
	"verif/ssvcheck/internal/ens"
)

const runnerPkg = ssv + "protocol/v2/ssv/runner"

// consensus runners and the beacon domain each signs after a decision
var postConsensusSites = map[string]string{
	"AttesterRunner":                "DomainAttester",
	"ProposerRunner":                "DomainProposer",
	"AggregatorRunner":              "DomainAggregateAndProof",
	"SyncCommitteeRunner":           "DomainSyncCommittee",
	"SyncCommitteeAggregatorRunner": "DomainContributionAndProof",
}

// runners that sign a pre-consensus object when the duty starts
var preConsensusSites = map[string]string{
	"ProposerRunner":                "DomainRandao",
	"AggregatorRunner":              "DomainSelectionProof",
	"SyncCommitteeAggregatorRunner": "DomainSyncCommitteeSelectionProof",
	"ValidatorRegistrationRunner":   "DomainApplicationBuilder",
	"VoluntaryExitRunner":           "DomainVoluntaryExit",
}

var slotBoundProofs = map[string]bool{"ProposerRunner": true, "AggregatorRunner": true, "SyncCommitteeAggregatorRunner": true}

func init() {
	register(&Check{
		Prop: "C03",
		Pkgs: []string{"./..."},
		Explain: "Decides the structural necessary conditions of 'validator-key signatures only over decided, validated duty data': " +
			"(R1) who-may-call: KeyManager.SignBeaconObject is invoked only from BaseRunner.signBeaconObject, which is called only from the 5 ProcessConsensus and the 5 executeDuty methods; " +
			"(R2) must-pass-through: every post-consensus signing call is preceded on every path by a successful baseConsensusMsgProcessing with decided==true, whose decided exit guarantees running duty, didDecideCorrectly (height of the running instance, first decision), decoding of the decided message and validateDecidedConsensusData (the role's value check); " +
			"(R3) provenance: the object and slot signed after consensus are computed from the decided value only (never StartingDuty, a beacon-node fetch or a message field), and State.DecidedValue has one writer, after validation; " +
			"(R4) domain/site table and duty-start gating of the pre-consensus proofs; (R5) message routing by validator key and role. " +
			"NOT decided: that the consensus instance decided correctly (C01), at-most-once over all message histories (only the edge-trigger shape is checked), behaviour of the KeyManager implementation (C04).",
		Rules: []string{
			"C03-R1 who-may-call(SignBeaconObject) ⊆ {signBeaconObject}; who-may-call(signBeaconObject) = 5 ProcessConsensus + 5 executeDuty",
			"C03-R2 facts-before(post-consensus signBeaconObject) ⊇ {ok(baseConsensusMsgProcessing), decided}; Ens(baseConsensusMsgProcessing|decided) ⊇ {hasRunningDuty, didDecideCorrectly⊇{msg≠nil, instance≠nil, height==, ¬prevDecided}, Decode, validateDecidedConsensusData⊇{valCheck}}",
			"C03-R3 backward slice of (object, slot) arguments ends in the decided value; writers(State.DecidedValue) = {baseConsensusMsgProcessing after validation}",
			"C03-R4 domain constants per site; executeDuty only via baseStartNew*Duty under ok(ShouldProcess*Duty)",
			"C03-R5 Validator.ProcessMessage reaches Process* only under runner≠nil ∧ ok(validateMessage) ∧ type switch",
		},
		Trusted: []string{"go/types + go/ssa (x/tools v0.29.0)", "CHA-style resolution of interface invokes by method identity", "hand-confirmed site tables in internal/rules/c03.go"},
		Assume:  []string{"facts are not invalidated by intervening writes (the engine has no kill set); reviewed for the anchored functions"},
		Run:     runC03,
	})
}

func runnerMethod(typ, m string) string { return runnerPkg + ".(*" + typ + ")." + m }

func runC03(c *core.Ctx) {
	// ---------------- R1: who may call the signer
	tg, names := methodTargets(c, "C03-R1", spec+"types.BeaconSigner.SignBeaconObject")
	if tg != nil {
		sites := whoMayCall(c, "C03-R1", "KeyManager.SignBeaconObject", tg, names, map[string]string{
			"ssv/protocol/v2/ssv/runner.BaseRunner.signBeaconObject": "the single signing helper of the duty runners",
		})
		c.Min("C03-R1", len(sites), 1, "SignBeaconObject call sites")
	}
	allow := map[string]string{}
	for t := range postConsensusSites {
		allow["ssv/protocol/v2/ssv/runner."+t+".ProcessConsensus"] = "post-consensus signature of the decided object"
	}
	for t := range preConsensusSites {
		allow["ssv/protocol/v2/ssv/runner."+t+".executeDuty"] = "pre-consensus proof made when the duty starts"
	}
	if sb, err := c.P.LookupFunc(runnerPkg + ".(*BaseRunner).signBeaconObject"); err != nil {
		c.Undischarged("C03-R1", "anchor:signBeaconObject", err.Error())
	} else {
		sites := whoMayCall(c, "C03-R1", "signBeaconObject", map[*types.Func]bool{sb: true}, nil, allow)
		c.Min("C03-R1", len(sites), 10, "signBeaconObject call sites")
	}

	// ---------------- R2: decided-and-validated before post-consensus signing
	decidedExit := "r0=true,r1=nonnil,err=nil"
	ensures(c, "C03-R2", runnerPkg+".(*BaseRunner).baseConsensusMsgProcessing", decidedExit, []Req{
		{"running-duty", "T(ssv/protocol/v2/ssv/runner.BaseRunner.hasRunningDuty@*(p0))", "a finished or absent duty must not sign (checked after the controller processed the message)"},
		{"not-finished", "F(p0.State.Finished)", "hasRunningDuty must mean State.Finished==false"},
		{"decided-correctly", "T(ssv/protocol/v2/ssv/runner.BaseRunner.didDecideCorrectly(p0, *ProcessMsg(p0.QBFTController, p1, p3)#0)#0)", "the decision must be checked against the running instance"},
		{"decided-msg-nonnil", "nonnil(ssv/protocol/v2/qbft/controller.Controller.ProcessMsg(p0.QBFTController, p1, p3)#0)", "no decided message, no signature"},
		{"running-instance", "nonnil(p0.State.RunningInstance)", "a decision without running instance is for another duty"},
		{"height-match", "eq(ssv/protocol/v2/qbft/controller.Controller.ProcessMsg(p0.QBFTController, p1, p3)#0.Message.Height, p0.State.RunningInstance.State.Height)", "decided height must be the running instance's height"},
		{"first-decision", "F(phi(false, ssv/protocol/v2/qbft/instance.Instance.IsDecided(p0.State.RunningInstance)#0))", "only the first decision of an instance may sign (at most once)"},
		{"controller-accepted", "ok(ssv/protocol/v2/qbft/controller.Controller.ProcessMsg(p0.QBFTController, p1, p3))", "the controller must have accepted the message"},
		{"decoded", "ok(ssv-spec/types.ConsensusData.Decode(*ProcessMsg(p0.QBFTController, p1, p3)#0.FullData))", "the signed object must be decoded from the decided message's data"},
		{"value-check", "ok(ssv/protocol/v2/ssv/runner.BaseRunner.validateDecidedConsensusData(p0, p2, *))", "the decided value must pass the duty's validity check before use"},
		{"value-check-runs-valcheck", "ok(dyn[ssv/protocol/v2/ssv/runner.Getters.GetValCheckF(p2)](*))", "validateDecidedConsensusData must run the role's value check"},
	})
	nPost := 0
	for t := range postConsensusSites {
		nPost += atCalls(c, "C03-R2", runnerMethod(t, "ProcessConsensus"), "ssv/protocol/v2/ssv/runner.BaseRunner.signBeaconObject", []Req{
			{"consensus-ok", "ok(ssv/protocol/v2/ssv/runner.BaseRunner.baseConsensusMsgProcessing(p0.BaseRunner, p1, p0, p2))", "signing before/without successful consensus processing"},
			{"decided", "T(ssv/protocol/v2/ssv/runner.BaseRunner.baseConsensusMsgProcessing(p0.BaseRunner, p1, p0, p2)#0)", "signing although the instance did not (newly) decide"},
			{"validated", "ok(ssv/protocol/v2/ssv/runner.BaseRunner.validateDecidedConsensusData(*", "the summary of the decided exit must include the value check"},
		})
	}
	c.Min("C03-R2", nPost, 5, "post-consensus signing sites")

	// "decided" means certified by committee members: the helper behind ValidateDecided
	checkVerifyByOperators(c, "C03-R2")

	// ---------------- R3: provenance of the signed object and slot
	for t, dom := range postConsensusSites {
		f := fn(c, "C03-R3", runnerMethod(t, "ProcessConsensus"))
		if f == nil {
			continue
		}
		for i, s := range callsIn(f, "ssv/protocol/v2/ssv/runner.BaseRunner.signBeaconObject") {
			args := s.Instr.Common().Args
			if len(args) != 5 {
				c.Undischarged("C03-R3", fmt.Sprintf("%s.ProcessConsensus|sign#%d", t, i+1), "signBeaconObject no longer has (runner, obj, slot, domain) parameters")
				continue
			}
			for _, which := range []struct {
				name string
				idx  int
			}{{"object", 2}, {"slot", 3}} {
				n := s.Arg(c, which.idx)
				ok, why := rootedInDecided(n)
				c.Decide(ok, "C03-R3", fmt.Sprintf("%s.ProcessConsensus|sign#%d|%s", t, i+1, which.name), c.P.Pos(s.Instr.Pos()),
					"slices back to the decided value: "+clip(n.String()),
					fmt.Sprintf("the %s signed after consensus is not derived from the decided value only: %s (%s)", which.name, clip(n.String()), why))
			}
			dn := s.Arg(c, 4).String()
			c.Decide(dn == "global:ssv-spec/types."+dom, "C03-R4", fmt.Sprintf("%s.ProcessConsensus|sign#%d|domain", t, i+1), c.P.Pos(s.Instr.Pos()),
				dn, fmt.Sprintf("post-consensus signature of %s uses domain %s, table says %s", t, dn, dom))
		}
	}
	ws := whoMayWrite(c, "C03-R3", runnerPkg+".State.DecidedValue", map[string]string{
		"ssv/protocol/v2/ssv/runner.BaseRunner.baseConsensusMsgProcessing": "set after validateDecidedConsensusData",
	})
	c.Min("C03-R3", len(ws), 1, "writers of State.DecidedValue")
	atStores(c, "C03-R3", runnerPkg+".(*BaseRunner).baseConsensusMsgProcessing", runnerPkg+".State.DecidedValue", []Req{
		{"validated-before-store", "ok(ssv/protocol/v2/ssv/runner.BaseRunner.validateDecidedConsensusData(p0, p2, *))", "DecidedValue must only ever hold a validated value"},
		{"decided-correctly-before-store", "T(ssv/protocol/v2/ssv/runner.BaseRunner.didDecideCorrectly(*)#0)", "DecidedValue must come from the running instance's decision"},
	})

	// ---------------- R4: pre-consensus proofs
	for t, dom := range preConsensusSites {
		f := fn(c, "C03-R4", runnerMethod(t, "executeDuty"))
		if f == nil {
			continue
		}
		sites := callsIn(f, "ssv/protocol/v2/ssv/runner.BaseRunner.signBeaconObject")
		if len(sites) == 0 {
			c.Undischarged("C03-R4", t+".executeDuty|sign", "no signing call found where the table expects one")
		}
		for i, s := range sites {
			args := s.Instr.Common().Args
			if len(args) != 5 {
				continue
			}
			dn := s.Arg(c, 4).String()
			c.Decide(dn == "global:ssv-spec/types."+dom, "C03-R4", fmt.Sprintf("%s.executeDuty|sign#%d|domain", t, i+1), c.P.Pos(s.Instr.Pos()),
				dn, fmt.Sprintf("pre-consensus signature of %s uses domain %s, table says %s (a consensus-object domain here would sign duty data without a decision)", t, dn, dom))
			sn := s.Arg(c, 3).String()
			c.Decide(sn == "p2.Slot", "C03-R4", fmt.Sprintf("%s.executeDuty|sign#%d|slot", t, i+1), c.P.Pos(s.Instr.Pos()),
				"slot argument is the started duty's slot", "pre-consensus proof is not bound to the started duty's slot: "+sn)
			if slotBoundProofs[t] {
				on := s.Arg(c, 2)
				c.Decide(strings.Contains(on.String(), "p2.Slot"), "C03-R4", fmt.Sprintf("%s.executeDuty|sign#%d|object", t, i+1), c.P.Pos(s.Instr.Pos()),
					clip(on.String()), "slot-bound proof object is not computed from the started duty's slot: "+clip(on.String()))
			}
		}
	}
	// executeDuty is reached only from the duty-start helpers, under their guard
	if tg, names := methodTargets(c, "C03-R4", runnerPkg+".Runner.executeDuty"); tg != nil {
		sites := whoMayCall(c, "C03-R4", "Runner.executeDuty", tg, names, map[string]string{
			"ssv/protocol/v2/ssv/runner.BaseRunner.baseStartNewDuty":          "after ShouldProcessDuty",
			"ssv/protocol/v2/ssv/runner.BaseRunner.baseStartNewNonBeaconDuty": "after ShouldProcessNonBeaconDuty",
		})
		c.Min("C03-R4", len(sites), 2, "executeDuty call sites")
	}
	atCalls(c, "C03-R4", runnerPkg+".(*BaseRunner).baseStartNewDuty", "ssv/protocol/v2/ssv/runner.Runner.executeDuty", []Req{
		{"should-process", "ok(ssv/protocol/v2/ssv/runner.BaseRunner.ShouldProcessDuty(p0, p3))", "a duty at or below the current height must not start (and sign a proof)"},
	})
	atCalls(c, "C03-R4", runnerPkg+".(*BaseRunner).baseStartNewNonBeaconDuty", "ssv/protocol/v2/ssv/runner.Runner.executeDuty", []Req{
		{"should-process", "ok(ssv/protocol/v2/ssv/runner.BaseRunner.ShouldProcessNonBeaconDuty(p0, p3))", "an older non-beacon duty must not start"},
	})

	// ---------------- R5: routing
	valPkg := ssv + "protocol/v2/ssv/validator"
	if _, err := c.P.Func(valPkg + ".(*Validator).ProcessMessage"); err == nil {
		n := 0
		for _, m := range []struct{ callee, typ string }{
			{"ssv/protocol/v2/ssv/runner.Runner.ProcessConsensus", "eq(0:MsgType, p2.SSVMessage.MsgType)"},
			{"ssv/protocol/v2/ssv/runner.Runner.ProcessPostConsensus", "eq(0:PartialSigMsgType, *.Message.Type)"},
			{"ssv/protocol/v2/ssv/runner.Runner.ProcessPreConsensus", "ne(0:PartialSigMsgType, *.Message.Type)"},
		} {
			n += atCalls(c, "C03-R5", valPkg+".(*Validator).ProcessMessage", m.callee, []Req{
				{"runner-for-id", "nonnil(ssv/protocol/v2/ssv/runner.DutyRunners.DutyRunnerForMsgID(p0.DutyRunners, p2.SSVMessage.MsgID))", "messages for a role without runner must not be processed"},
				{"belongs-to-validator", "ok(ssv/protocol/v2/ssv/validator.validateMessage(*p0.Share.Share, p2))", "messages of other validators must not reach the runner"},
				{"pubkey-check", "T(ssv-spec/types.ValidatorPK.MessageIDBelongs(*", "validateMessage must compare the message id with the validator key"},
				{"type-dispatch", m.typ, "the message type must select the processing stage"},
			})
		}
		c.Min("C03-R5", n, 3, "Process* dispatch sites in Validator.ProcessMessage")
	} else {
		c.Undischarged("C03-R5", "anchor:Validator.ProcessMessage", err.Error())
	}
}

// rootedInDecided: the expression is computed from the decided value — the
// second result of baseConsensusMsgProcessing or a load of State.DecidedValue
// — and from nothing that is not decided: no StartingDuty, no beacon-node
// fetch, no field of the incoming message (p2).
func rootedInDecided(n *ens.Node) (bool, string) {
	bad := ""
	n.Walk(func(m *ens.Node) {
		s := ""
		switch m.K {
		case "field":
			if m.L == "StartingDuty" {
				s = "reads StartingDuty"
			}
		case "call":
			if strings.HasPrefix(m.L, "ssv-spec/ssv.BeaconNode.") || strings.Contains(m.L, ".GetBeaconNode") && false {
				s = "uses a beacon-node fetch " + m.L
			}
		case "param":
			if m.L == "2" {
				s = "uses the incoming message"
			}
		}
		if s != "" && bad == "" {
			bad = s
		}
	})
	// p2 legitimately appears as the argument of baseConsensusMsgProcessing
	// itself; recompute while cutting below the decided marker
	var rooted func(m *ens.Node) (bool, string)
	rooted = func(m *ens.Node) (bool, string) {
		if isDecidedMarker(m) {
			return true, ""
		}
		switch m.K {
		case "field":
			if m.L == "StartingDuty" {
				return false, "reads StartingDuty"
			}
		case "param":
			if m.L == "2" {
				return false, "uses the incoming message"
			}
			return false, ""
		case "call":
			if strings.HasPrefix(m.L, "ssv-spec/ssv.BeaconNode.") {
				return false, "uses a beacon-node fetch " + m.L
			}
		}
		if len(m.A) == 0 {
			return false, ""
		}
		any := false
		if m.K == "phi" {
			all := true
			for _, k := range m.A {
				r, why := rooted(k)
				if why != "" {
					return false, why
				}
				if !r {
					all = false
				}
			}
			return all, ""
		}
		for _, k := range m.A {
			r, why := rooted(k)
			if why != "" {
				return false, why
			}
			if r {
				any = true
			}
		}
		return any, ""
	}
	_ = bad
	r, why := rooted(n)
	if !r && why == "" {
		why = "no path to the decided value"
	}
	return r, why
}

func isDecidedMarker(m *ens.Node) bool {
	if m.K == "extract" && m.L == "1" && len(m.A) == 1 && m.A[0].K == "call" && m.A[0].L == "ssv/protocol/v2/ssv/runner.BaseRunner.baseConsensusMsgProcessing" {
		return true
	}
	if m.K == "field" && m.L == "DecidedValue" {
		return true
	}
	return false
}

var _ ssa.Value
