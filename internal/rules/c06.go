package rules

import (
	"fmt"
	"go/ast"
	"go/token"
	"go/types"
	"os"
	"regexp"
	"sort"
	"strings"

	"golang.org/x/tools/go/ssa"

	"verif/ssvcheck/internal/core"
	"verif/ssvcheck/internal/ens"
)

// E5 — sibling conformance of the node's QBFT instance with the reference
// implementation it was ported from (ssv-spec/qbft, the version go.mod links).
//
// Both functions of a pair are analysed by the same engine (E1, without
// interprocedural expansion: every callee pair is compared on its own). Each
// is reduced to a *view*:
//   - accept exits: per exit, the returned operands and the must-hold facts;
//   - effect sites: per call of an effectful callee and per store through a
//     parameter, the must-hold facts before it;
//   - the multiset of calls made.
// Views are normalised (node package names ↦ spec package names, logger
// parameters and logging / metrics calls erased, parameters rebound by
// position after dropping loggers) and must be equal, except for the frozen
// deviations below — each with its reason.

const (
	specQbft = spec + "qbft"
)

// c06Deviation: an item (rendered, normalised) that may appear on one side
// only. Side is "node" or "spec"; Pair is the lower-cased pair name or "*".
type c06Deviation struct {
	ID, Pair, Side string
	Pat            *regexp.Regexp
	Why            string
}

var c06Deviations []c06Deviation

func c06Dev(id, pair, side, pat, why string) {
	c06Deviations = append(c06Deviations, c06Deviation{id, pair, side, regexp.MustCompile(pat), why})
}

// node-only functions of the instance package: not part of the protocol.
var c06NodeOnly = map[string]string{
	"compact":                "state compaction (C06-R2)",
	"compactcopy":            "state compaction (C06-R2)",
	"compactcontainercopy":   "state compaction (C06-R2)",
	"compactcontaineredit":   "state compaction (C06-R2)",
	"newmetrics":             "metrics",
	"metrics.endstagecommit": "metrics", "metrics.endstageprepare": "metrics", "metrics.endstageproposal": "metrics",
	"metrics.setround": "metrics", "metrics.startstage": "metrics",
	"instance.setconfig":      "test / wiring setter; C01-R5 forbids protocol-state writes outside the instance's handlers",
	"instance.bumptoround":    "D1: State.Round = x plus a metrics call; compared inlined through its store",
	"init":                    "package init (metrics registration)",
	"isproposaljustification": "",
}

func init() {
	register(&Check{
		Prop: "C06",
		Pkgs: []string{"./protocol/v2/qbft/...", "./protocol/v2/types/..."},
		Explain: "Observational equality with the reference on every message sequence is NOT decided (it quantifies over executions). Decided is the structural condition the port rests on: every function of the node's instance package has the same guards, effects and results as its sibling in the ssv-spec/qbft source the build links (R1), and compaction keeps every message a later handler can still count (R2). " +
			"R1 compares, per function pair and after erasing loggers/metrics and renaming packages: for every accept exit the returned operands and the must-hold facts; for every effectful call (broadcast, timer, container insertion, signing, state store) the must-hold facts before it; and the multiset of calls made. Differences must be in the frozen deviation table (each with a reason) or the check fails naming the item and the side. " +
			"What R1 does not see: differences hidden inside equal-looking calls into third packages, arithmetic inside shared ssv-spec types (shared code is the same code), error texts.",
		Rules: []string{
			"C06-R1 sibling view equality (accept exits, effect sites, stores, call multiset) for every function pair of protocol/v2/qbft/instance ↔ ssv-spec/qbft",
			"C06-R2 compaction retention: a container entry is deleted only for rounds no reachable reader can query",
		},
		Trusted: []string{"ssv-spec/qbft source as the oracle", "go/types + go/ssa", "shared ssv-spec types (State, MsgContainer, messages) are literally the same code on both sides"},
		Assume:  []string{"IConfig.VerifySignatures() is true in production (C01-R6), so the node's conditional signature checks are unconditional"},
		Run:     runC06,
		Setup: func(e *ens.Engine) {
			qbftSetup(e)
			e.Expand = nil
			// callee pairs are compared on their own; only helpers that are compared inlined
			// (c06Inl) and literals invoked on the spot lend their facts to their callers
			e.MaxDepth = 3
			e.ExpandFn = func(h *ssa.Function) bool {
				return c06Inl[h] || (h.Parent() != nil && len(h.FreeVars) == 0 && len(h.Params) > 0)
			}
		},
	})
}

func init() {
	cp := `q\.createproposal\(p0\.State, p0\.config, p0\.StartValue, nil, nil\)`
	c06Dev("D4", "instance.start", "node", `^at closure:call q\.instance\.broadcast\(p0, `+cp+`#0\): node-only fact (isnil\(`+cp+`#1\)|ok\(`+cp+`\))$`,
		"Start: the reference prints the CreateProposal error and still calls Broadcast (with a nil message); the node broadcasts only when the proposal was created")
	acc := `phi\(nil, opaque:cycle, q\.signedmessage\.deepcopy\(p0\[_\]\)\)`
	c06Dev("D5", "aggregatecommitmsgs", "node", `^node-only accept exits: closure:return\(\(`+acc+`\.Signers\[_\] < `+acc+`\.Signers\[_\]\)\) \(1 vs 0\)$`,
		"the node sorts the aggregated signers ascending (set-equal result; message validation requires sorted signers)")
	c06Dev("D5", "aggregatecommitmsgs", "node", `^(at return\(`+acc+` ; nil\): node-only fact called\(|node-only call )sort\.Slice\(`+acc+`\.Signers, closure:q\.aggregatecommitmsgs\$1\)\)?( \(1 vs 0\))?$`,
		"the node sorts the aggregated signers ascending")
}

func runC06(c *core.Ctx) {
	c06Pairs(c)
	c06Retention(c)
}

type c06View struct {
	exits   map[string][]string // result tuple -> list of fact-set renderings (one per exit)
	sites   map[string][]string // effect site key -> fact-set renderings
	calls   map[string]int
	conds   map[string]int // branch conditions as polarity-free atoms
	nExits  int
	nSites  int
	unbound []string
}

// c06Rewrite: a frozen, reasoned deviation expressed as a rewrite of the
// node-side rendering into the reference's form (Pair "*" = every pair).
type c06Rewrite struct {
	ID, Pair string
	Re       *regexp.Regexp
	To       string
	Why      string
}

const c06Heights = `(?:p0\.State\.Height|p1\.Message\.Height|p2)`

var c06Rewrites = []c06Rewrite{
	{"D1", "*", regexp.MustCompile(`^called\(q\.instance\.bumptoround\(p0, (.*)\)\)$`), "stored(p0.State.Round, $1)",
		"bumpToRound(x) is State.Round = x plus a metrics update (its body is checked to be exactly that)"},
	{"D1", "*", regexp.MustCompile(`^(closure:)?call (closure:)?q\.instance\.bumptoround\(p0, (.*)\)$`), "${1}store p0.State.Round := $3",
		"bumpToRound(x) is State.Round = x plus a metrics update"},
	{"D3", "*", regexp.MustCompile(`ssv/protocol/v2/qbft/roundtimer\.Timer\.TimeoutForRound\((q\.iconfig\.gettimer\(p0\.config\)), ` + c06Heights + `, `), "q.timer.timeoutforround($1, ",
		"the node's timer takes the instance height as an extra argument (always the instance's own height: State.Height, the validated message's height, or Start's height parameter)"},
	{"D2", "*", regexp.MustCompile(`ssv/protocol/v2/types\.VerifyByOperators\(`), "ssv-spec/types.Signature.VerifyByOperators(",
		"the node verifies through its caching helper types.VerifyByOperators(sig, …) instead of sig.VerifyByOperators(…): same arguments"},
	{"D7", "newinstance", regexp.MustCompile(`, metrics: q\.newmetrics\(ssv-spec/types\.MessageIDFromBytes\(p2\)\)`), "",
		"the node's instance carries a metrics handle"},
	{"D8", "types.verifybyoperators", regexp.MustCompile(`ssv/protocol/v2/types\.DeserializeBLSPublicKey\((ssv-spec/types\.Operator\.GetPublicKey\(p4\[_\]\))\)#0`), "local:pk",
		"the node deserialises operator keys through a cache keyed by the key bytes (DeserializeBLSPublicKey) instead of pk.Deserialize"},
	{"D8", "types.verifybyoperators", regexp.MustCompile(`ssv/protocol/v2/types\.DeserializeBLSPublicKey\((ssv-spec/types\.Operator\.GetPublicKey\(p4\[_\]\))\)`), "github.com/herumi/bls-eth-go-binary/bls.PublicKey.Deserialize(local:pk, $1)",
		"the node deserialises operator keys through a cache keyed by the key bytes"},
	{"D8", "types.verifybyoperators", regexp.MustCompile(`(github\.com/herumi/bls-eth-go-binary/bls\.PublicKey\.Deserialize\(local:pk, ssv-spec/types\.Operator\.GetPublicKey\(p4\[_\]\)\))#1`), "$1",
		"the cached deserialiser returns (key, error), pk.Deserialize only the error"},
	{"D5", "aggregatecommitmsgs", regexp.MustCompile(`local:ret`), "phi(nil, opaque:cycle, q.signedmessage.deepcopy(p0[_]))",
		"the accumulator is captured by the sort closure and therefore rendered as a named local on the node side"},
}

// applied to every rendered item of the given side before comparison
func c06Rewr(c *core.Ctx, pair, s string) string {
	for _, r := range c06Rewrites {
		if r.Pair != "*" && r.Pair != pair {
			continue
		}
		if r.Re.MatchString(s) {
			s = r.Re.ReplaceAllString(s, r.To)
			c.Count("deviation_"+r.ID+"_applied", 1)
		}
	}
	return s
}

var reOrd = regexp.MustCompile(`@[0-9]+\(`)

func c06Norm(s string) string {
	s = strings.ReplaceAll(s, "ssv/protocol/v2/qbft/instance.", "Q.")
	s = strings.ReplaceAll(s, "ssv-spec/qbft.", "Q.")
	s = strings.ReplaceAll(s, "ssv/protocol/v2/qbft.", "Q.")
	s = strings.ReplaceAll(s, "ssv/protocol/v2/qbft/controller.", "Q.")
	s = strings.ReplaceAll(s, "ssv/protocol/v2/ssv/runner.", "Q.")
	s = strings.ReplaceAll(s, "ssv-spec/ssv.", "Q.")
	s = strings.ReplaceAll(s, ", LOGGER", "")
	s = strings.ReplaceAll(s, "LOGGER, ", "")
	s = strings.ReplaceAll(s, "(LOGGER)", "()")
	s = reOrd.ReplaceAllString(s, "(")
	return c06FoldQ(s)
}

// c06FoldQ lower-cases the identifier chain following each "Q." so that
// exported/unexported spellings of the same function compare equal.
var reQ = regexp.MustCompile(`Q\.[A-Za-z0-9_.]+`)

func c06FoldQ(s string) string {
	return reQ.ReplaceAllStringFunc(s, func(m string) string {
		m = strings.ToLower(m)
		if r, ok := c06Renames[m]; ok {
			return r
		}
		return m
	})
}

// c06Renames: lower-cased node function name → name of its reference sibling, for private
// functions paired by signature (see c06Pairs).
var c06Renames = map[string]string{}

func c06Noise(s string) bool {
	for _, w := range []string{"go.uber.org/zap", "logging/fields", "LOGGER", ".metrics", "q.metrics", "github.com/pkg/errors", "fmt.", "q.newmetrics", "prometheus", "encoding/hex", "time.Now", "time.Since"} {
		if strings.Contains(s, w) {
			return true
		}
	}
	return false
}

func isLoggerType(t types.Type) bool {
	return strings.HasSuffix(t.String(), "go.uber.org/zap.Logger")
}

func c06Bind(f *ssa.Function) ([]*ens.Node, int) {
	var bind []*ens.Node
	k := 0
	for _, p := range f.Params {
		if isLoggerType(p.Type()) {
			bind = append(bind, &ens.Node{K: "const", L: "LOGGER"})
			continue
		}
		bind = append(bind, &ens.Node{K: "param", L: fmt.Sprint(k), T: p.Type()})
		k++
	}
	return bind, k
}

// c06Effect: callee labels (normalised) whose call sites are compared with
// their dominating facts.
func c06Effect(label string) bool {
	if label == "append" || label == "delete" || label == "copy" {
		return true // what is collected into a result (and under which guard) is part of the behaviour
	}
	l := strings.ToLower(c06Norm(label))
	for _, w := range []string{
		"q.network.broadcast", "timeoutforround", "msgcontainer.addmsg", "msgcontainer.addfirstmsgforsignerandround",
		"q.instance.broadcast", "q.create", "signqbftmsg", "q.instance.upon", "q.instance.bumptoround", "q.proposedvaluecheckf",
		"sync.once.do", "q.instance.start", "signedmessage.aggregate",
	} {
		if strings.Contains(l, w) {
			return true
		}
	}
	return false
}

// c06View building. side is "node" or "spec"; only node-side renderings go
// through the deviation rewrites.
type c06Builder struct {
	c    *core.Ctx
	pair string
	side string
}

func (b *c06Builder) norm(s string) string {
	s = c06Norm(s)
	if b.side == "node" {
		s = c06Rewr(b.c, b.pair, s)
	}
	return s
}

// c06Strip replaces every logger-valued subtree (logger.With(…), Named(…))
// by the LOGGER marker.
func c06Strip(n *ens.Node) *ens.Node {
	if n == nil {
		return nil
	}
	if n.K == "call" && strings.HasPrefix(n.L, "go.uber.org/zap.Logger.") {
		switch strings.TrimPrefix(n.L, "go.uber.org/zap.Logger.") {
		case "With", "Named", "WithOptions", "Sugar":
			return &ens.Node{K: "const", L: "LOGGER"}
		}
	}
	if len(n.A) == 0 {
		return n
	}
	na := make([]*ens.Node, 0, len(n.A))
	ch := false
	for _, c := range n.A {
		sc := c06Strip(c)
		if sc != c {
			ch = true
		}
		// a logger argument of a call is erased at tree level (so that depth-limited
		// rendering cannot hide it); the receiver position (index 0 of a logger method) stays
		if n.K == "call" && sc.K == "const" && sc.L == "LOGGER" && !strings.HasPrefix(n.L, "go.uber.org/zap.") {
			ch = true
			continue
		}
		na = append(na, sc)
	}
	if !ch {
		return n
	}
	return &ens.Node{K: n.K, L: n.L, A: na, T: n.T, Fn: n.Fn, Ord: n.Ord}
}

func c06StripFact(f *ens.Fact) *ens.Fact {
	nf := &ens.Fact{Kind: f.Kind, Via: f.Via}
	for _, a := range f.A {
		nf.A = append(nf.A, c06Strip(a))
	}
	if f.Sub != nil {
		nf.Sub = c06StripFact(f.Sub)
	}
	if f.If != nil {
		nf.If = c06StripFact(f.If)
	}
	return nf
}

// feedsOnlyNoise: the value is used only by logging / metrics calls (possibly
// through conversions, interface boxing or the varargs slice of such a call).
func feedsOnlyNoise(v ssa.Value, depth int) bool {
	refs := v.Referrers()
	if refs == nil || len(*refs) == 0 || depth > 5 {
		return false
	}
	for _, r := range *refs {
		switch r := r.(type) {
		case ssa.CallInstruction:
			lbl := callLabel(r.Common())
			if c06Noise(lbl) || c06Noise(strings.ToLower(c06Norm(lbl))) {
				continue
			}
			// an effect-free local helper whose own result is only logged (allSigners today)
			if rv, ok := r.(*ssa.Call); ok && c06EffectFree(rv.Call.StaticCallee()) && feedsOnlyNoise(rv, depth+1) {
				continue
			}
			return false
		case *ssa.MakeInterface, *ssa.ChangeType, *ssa.Convert, *ssa.ChangeInterface, *ssa.Slice:
			if !feedsOnlyNoise(r.(ssa.Value), depth+1) {
				return false
			}
		case *ssa.Store:
			// storing into the varargs array of a noise call
			ia, ok := r.Addr.(*ssa.IndexAddr)
			if !ok || r.Val != v {
				return false
			}
			al, ok := ia.X.(*ssa.Alloc)
			if !ok || !feedsOnlyNoise(al, depth+1) {
				return false
			}
		case *ssa.IndexAddr:
			// the alloc's own index-address instructions
			continue
		case *ssa.DebugRef:
			continue
		default:
			return false
		}
	}
	return true
}

// c06EffectFree: an unexported package-level function of the instance package whose body
// writes no memory it did not allocate and calls nothing but len/cap/append: whatever it
// returns, a call whose result is only logged cannot influence the protocol.
var c06EffectFreeMemo = map[*ssa.Function]bool{}

func c06EffectFree(h *ssa.Function) bool {
	if h == nil || len(h.Blocks) == 0 || h.Pkg == nil || h.Pkg.Pkg.Path() != instPkg || h.Signature.Recv() != nil || h.Parent() != nil || ast.IsExported(h.Name()) {
		return false
	}
	if v, ok := c06EffectFreeMemo[h]; ok {
		return v
	}
	ok := true
	for _, b := range h.Blocks {
		for _, in := range b.Instrs {
			switch in := in.(type) {
			case *ssa.Store:
				base := in.Addr
				for {
					if ia, isIA := base.(*ssa.IndexAddr); isIA {
						base = ia.X
						continue
					}
					if fa, isFA := base.(*ssa.FieldAddr); isFA {
						base = fa.X
						continue
					}
					break
				}
				if _, local := base.(*ssa.Alloc); !local {
					ok = false
				}
			case *ssa.MapUpdate, *ssa.Send, *ssa.Go, *ssa.Defer, *ssa.Panic:
				ok = false
			case *ssa.Call:
				bi, isB := in.Call.Value.(*ssa.Builtin)
				if !isB || (bi.Name() != "len" && bi.Name() != "cap" && bi.Name() != "append") {
					ok = false
				}
			}
		}
	}
	c06EffectFreeMemo[h] = ok
	return ok
}

func (b *c06Builder) factList(fs ens.FactSet, bind []*ens.Node, drop map[string]bool) string {
	var out []string
	for _, f := range fs {
		if bind != nil {
			f = f.Subst(bind, "")
		}
		f = c06StripFact(f)
		raw := f.Key()
		skip := false
		for d := range drop {
			if strings.Contains(raw, d) {
				skip = true
			}
		}
		if skip {
			continue
		}
		k := raw
		if strings.HasPrefix(k, "or(") {
			continue
		}
		k = b.norm(k)
		if c06Noise(k) || strings.Contains(k, "q.iconfig.verifysignatures(") || strings.Contains(k, "LOGGER") || k == "called()" || strings.Contains(k, "local:logger") {
			continue
		}
		out = append(out, k)
	}
	sort.Strings(out)
	return strings.Join(out, "\n")
}

// c06Inl: functions that are compared *inlined into their callers* instead of
// on their own: private helpers of a compared package that have no sibling on
// the other side, and function literals that are called on the spot. Extracting
// lines into a helper, inlining a tiny helper, or naming a closure must not
// change the view.
var c06Inl = map[*ssa.Function]bool{}

func c06Inlineable(h *ssa.Function, root *ssa.Function) bool {
	if h == nil || len(h.Blocks) == 0 || h.Pkg == nil || h.Pkg != topFunc(root).Pkg {
		return false
	}
	if h.Parent() != nil {
		return len(h.Params) > 0 // a literal invoked with arguments (checked at the call site)
	}
	return c06Inl[h]
}

type c06Unit struct {
	g    *ssa.Function
	bind []*ens.Node // rebinding of g's parameter nodes into root terms (nil: none)
	ctx  ens.FactSet // facts holding whenever g runs, already in root terms
	tag  string
	root bool
}

func (b *c06Builder) build(f *ssa.Function) *c06View {
	c := b.c
	v := &c06View{exits: map[string][]string{}, sites: map[string][]string{}, calls: map[string]int{}, conds: map[string]int{}}
	bind, _ := c06Bind(f)
	// calls whose results only feed logging are not part of the protocol (collected over the
	// function and its closures: a closure inherits the facts of the place it is created at)
	drop := map[string]bool{}
	inlLabels := map[string]bool{}
	var units []c06Unit
	direct := map[*ssa.Function]bool{} // literals consumed by an on-the-spot call
	for _, g := range funcsWithAnon(f) {
		for _, bl := range g.Blocks {
			for _, in := range bl.Instrs {
				if cv, ok := in.(*ssa.Call); ok {
					if h := cv.Call.StaticCallee(); h != nil && h.Parent() != nil && len(h.Params) > 0 {
						direct[h] = true
					}
				}
			}
		}
	}
	for _, g := range funcsWithAnon(f) {
		switch {
		case g == f:
			units = append(units, c06Unit{g: g, bind: bind, root: true})
		case direct[g]:
			// reached from its call site below
		case len(g.Params) == 0:
			units = append(units, c06Unit{g: g, bind: bind, tag: "closure:"})
		default:
			units = append(units, c06Unit{g: g, tag: "closure:"})
		}
	}
	seen := map[*ssa.Function]int{}
	type pendExit struct {
		key string
		fs  ens.FactSet
	}
	var pendExits []pendExit // rendered last: which calls are inlined is known only after the walk
	type pendSite struct {
		key string
		fs  ens.FactSet
	}
	var pendSites []pendSite
	var pendConds []string
	for qi := 0; qi < len(units); qi++ {
		u := units[qi]
		g := u.g
		a := c.E.Analyze(g)
		rb := func(n *ens.Node) *ens.Node {
			if u.bind != nil {
				n = n.Subst(u.bind)
			}
			return c06Strip(n)
		}
		sub := func(n *ens.Node) string { return b.norm(rb(n).String()) }
		facts := func(in ssa.Instruction) ens.FactSet {
			fs := a.FactsAt(in)
			if fs == nil {
				return nil
			}
			out := ens.FactSet{}
			for _, f := range fs {
				if u.bind != nil {
					f = f.Subst(u.bind, "")
				}
				out.Add(f)
			}
			for _, f := range u.ctx {
				out.Add(f)
			}
			return out
		}
		for _, bl := range g.Blocks {
			for _, in := range bl.Instrs {
				if cv, ok := in.(*ssa.Call); ok && feedsOnlyNoise(cv, 0) {
					drop[rb(a.D.D(cv)).String()] = true
				}
			}
		}
		// exits (of the compared function and of the closures that stay closures)
		if u.root || u.tag != "" && !c06Inl[g] && g.Parent() != nil && !direct[g] {
			spec := "any"
			res := g.Signature.Results()
			if res.Len() > 0 && res.At(res.Len()-1).Type().String() == "error" {
				spec = "err=nil"
			}
			exits, err := a.Exits(spec)
			if err != nil {
				v.unbound = append(v.unbound, err.Error())
			}
			for _, ex := range exits {
				var rs []string
				for _, r := range ex.Ret.Results {
					rs = append(rs, sub(a.D.D(r)))
				}
				key := u.tag + "return(" + strings.Join(rs, " ; ") + ")"
				fs := ens.FactSet{}
				for _, f := range ex.Facts {
					if u.bind != nil {
						f = f.Subst(u.bind, "")
					}
					fs.Add(f)
				}
				pendExits = append(pendExits, pendExit{key, fs})
				v.nExits++
			}
		}
		// sites
		for _, bl := range g.Blocks {
			for _, in := range bl.Instrs {
				switch in := in.(type) {
				case *ssa.If:
					if atom := c06CondAtom(in.Cond, func(x ssa.Value) string { return sub(a.D.D(x)) }); atom != "" && !c06Noise(atom) && !strings.Contains(atom, "q.iconfig.verifysignatures(") {
						pendConds = append(pendConds, u.tag+atom)
					}
				case ssa.CallInstruction:
					lbl := callLabel(in.Common())
					var n *ens.Node
					if cv, ok := in.(*ssa.Call); ok {
						n = a.D.D(cv)
						if feedsOnlyNoise(cv, 0) {
							continue
						}
						if h := cv.Call.StaticCallee(); c06Inlineable(h, f) && seen[h] < 3 {
							// compare the helper's body in place of the call
							seen[h]++
							var args []*ens.Node
							for _, x := range cv.Call.Args {
								args = append(args, rb(a.D.D(x)))
							}
							if h.Parent() != nil {
								// the literal's own parameters come first, captured variables are bound by the describer
							}
							units = append(units, c06Unit{g: h, bind: args, ctx: facts(in), tag: u.tag})
							inlLabels[b.norm(rb(n).L)] = true
							inlLabels[rb(n).L] = true
							continue
						}
					} else {
						n = a.D.Call(in)
					}
					if c06Noise(c06Norm(rb(n).String())) || c06Noise(lbl) || strings.Contains(lbl, "IConfig.VerifySignatures") || strings.HasSuffix(lbl, ".error.Error") {
						continue
					}
					ks := sub(n)
					pre := u.tag
					if _, isDefer := in.(*ssa.Defer); isDefer {
						pre += "defer "
					}
					if _, isGo := in.(*ssa.Go); isGo {
						pre += "go "
					}
					if !strings.HasSuffix(lbl, "Instance.bumpToRound") {
						v.calls[pre+ks]++
					}
					if c06Effect(lbl) {
						key := b.norm(pre + "call " + ks)
						pendSites = append(pendSites, pendSite{key, facts(in)})
						v.nSites++
					}
				case *ssa.Store:
					if baseFresh(in.Addr) {
						continue
					}
					ad := sub(a.D.D(in.Addr))
					if strings.HasPrefix(ad, "local:") || c06Noise(ad) {
						continue
					}
					ks := u.tag + "store " + ad + " := " + sub(a.D.D(in.Val))
					pendSites = append(pendSites, pendSite{ks, facts(in)})
					v.nSites++
				}
			}
		}
	}
	for _, atom := range pendConds {
		skip := false
		for l := range inlLabels {
			if strings.Contains(atom, l+"(") {
				skip = true // a test of an inlined helper's result: the helper's own tests stand in for it
			}
		}
		if !skip {
			v.conds[atom]++
		}
	}
	for _, pe := range pendExits {
		v.exits[pe.key] = append(v.exits[pe.key], b.factListRaw(pe.fs, drop, inlLabels))
	}
	for _, ps := range pendSites {
		v.sites[ps.key] = append(v.sites[ps.key], b.factListRaw(ps.fs, drop, inlLabels))
	}
	return v
}

// c06CondAtom renders a branch condition without its polarity: a == b and
// a != b are the same test (inverting a condition and swapping the branches is
// behaviour-preserving), a < b and a >= b likewise, a > b and a <= b are b < a.
// A changed operator or operand is a different atom.
func c06CondAtom(c ssa.Value, r func(ssa.Value) string) string {
	switch v := c.(type) {
	case *ssa.UnOp:
		if v.Op == token.NOT {
			return c06CondAtom(v.X, r)
		}
	case *ssa.BinOp:
		x, y := r(v.X), r(v.Y)
		switch v.Op {
		case token.EQL, token.NEQ:
			if x > y {
				x, y = y, x
			}
			return "test eq(" + x + ", " + y + ")"
		case token.LSS, token.GEQ:
			return "test lt(" + x + ", " + y + ")"
		case token.GTR, token.LEQ:
			return "test lt(" + y + ", " + x + ")"
		}
	case *ssa.Phi:
		// short-circuit value: its operands are tested by their own branches
		return ""
	}
	return "test " + r(c)
}

// factListRaw renders a fact set that is already in root terms. Facts about
// the results of inlined helpers are dropped (the helper's own facts stand in
// for them).
func (b *c06Builder) factListRaw(fs ens.FactSet, drop, inl map[string]bool) string {
	var out []string
	for _, f := range fs {
		if f.Kind == "when" {
			continue // bookkeeping of the merge logic, not a property of the path
		}
		f = c06StripFact(f)
		raw := f.Key()
		skip := false
		for d := range drop {
			if strings.Contains(raw, d) {
				skip = true
			}
		}
		for l := range inl {
			if strings.Contains(raw, l+"(") {
				skip = true
			}
		}
		if skip || strings.HasPrefix(raw, "or(") {
			continue
		}
		k := b.norm(raw)
		if c06Noise(k) || strings.Contains(k, "q.iconfig.verifysignatures(") || strings.Contains(k, "LOGGER") || k == "called()" || strings.Contains(k, "local:logger") {
			continue
		}
		out = append(out, k)
	}
	sort.Strings(out)
	return strings.Join(out, "\n")
}

// baseFresh: the address is a field/index of a value allocated in this
// function (initialising a fresh composite is construction, not an effect).
func baseFresh(v ssa.Value) bool {
	for {
		switch x := v.(type) {
		case *ssa.FieldAddr:
			v = x.X
		case *ssa.IndexAddr:
			v = x.X
		case *ssa.Alloc:
			return true
		default:
			return false
		}
	}
}

func c06Pairs(c *core.Ctx) {
	const rule = "C06-R1"
	nodeFns := map[string]*ssa.Function{}
	for _, f := range c.P.SourceFuncs(instPkg) {
		if f.Parent() != nil || f.Synthetic != "" {
			continue
		}
		nodeFns[c06FnKey(f)] = f
	}
	specFns := map[string]*ssa.Function{}
	for _, f := range c.P.SourceFuncs(specQbft) {
		if f.Parent() != nil || f.Synthetic != "" {
			continue
		}
		specFns[c06FnKey(f)] = f
	}
	if len(specFns) == 0 {
		c.Undischarged(rule, "anchor:ssv-spec/qbft", "no function bodies of the reference package were loaded")
		return
	}
	var names []string
	for k := range nodeFns {
		names = append(names, k)
	}
	sort.Strings(names)
	// private functions without a sibling are compared inlined into their callers
	unexported := func(f *ssa.Function) bool { o := f.Object(); return o != nil && !o.Exported() }
	allowListed := func(k string) bool {
		if strings.HasPrefix(k, "init#") {
			return true
		}
		_, ok := c06NodeOnly[k]
		return ok
	}
	// a private function renamed on the node side: no sibling by name, but exactly one sibling-less
	// private reference function has its signature (and vice versa). They are compared as a pair
	// under the reference's name and calls of the node's name are rendered with it.
	c06Renames = map[string]string{}
	sigOf := func(f *ssa.Function) string {
		var ps []string
		for _, p := range f.Params {
			if !isLoggerType(p.Type()) {
				ps = append(ps, p.Type().String())
			}
		}
		return fmt.Sprint(f.Signature.Recv() != nil, ps, f.Signature.Results().String())
	}
	bySigN, bySigS := map[string][]string{}, map[string][]string{}
	for k, f := range nodeFns {
		if specFns[k] == nil && unexported(f) && !allowListed(k) {
			bySigN[sigOf(f)] = append(bySigN[sigOf(f)], k)
		}
	}
	for k, f := range specFns {
		if nodeFns[k] == nil && unexported(f) {
			bySigS[sigOf(f)] = append(bySigS[sigOf(f)], k)
		}
	}
	for sg, ns := range bySigN {
		if ss := bySigS[sg]; len(ns) == 1 && len(ss) == 1 {
			c06Renames["q."+ns[0]] = "q." + ss[0]
			nodeFns[ss[0]] = nodeFns[ns[0]]
			delete(nodeFns, ns[0])
			c.Count("renamed_pairs", 1)
		}
	}
	names = names[:0]
	for k := range nodeFns {
		names = append(names, k)
	}
	sort.Strings(names)
	for k, f := range nodeFns {
		if specFns[k] == nil && unexported(f) && !allowListed(k) {
			c06Inl[f] = true
		}
	}
	for k, f := range specFns {
		if nodeFns[k] == nil && unexported(f) {
			c06Inl[f] = true
		}
	}
	calledFrom := map[*ssa.Function][]string{}
	for k, f := range nodeFns {
		for _, g := range funcsWithAnon(f) {
			for _, b := range g.Blocks {
				for _, in := range b.Instrs {
					if ci, ok := in.(ssa.CallInstruction); ok {
						if h := ci.Common().StaticCallee(); h != nil && c06Inl[h] && h != f {
							calledFrom[h] = append(calledFrom[h], k)
						}
					}
				}
			}
		}
	}
	pairs := 0
	for _, k := range names {
		nf := nodeFns[k]
		why, ok := c06NodeOnly[k]
		if strings.HasPrefix(k, "init#") {
			why, ok = c06NodeOnly["init"]
		}
		if ok && specFns[k] == nil {
			c.OK(rule, "node-only|"+k, c.P.Pos(nf.Pos()), "allow-listed node-only function: "+why)
			continue
		}
		sf := specFns[k]
		if sf == nil && c06Inl[nf] && len(calledFrom[nf]) > 0 {
			sort.Strings(calledFrom[nf])
			c.OK(rule, "node-only|"+k, c.P.Pos(nf.Pos()), "private helper without a sibling: compared inlined into "+strings.Join(calledFrom[nf], ", "))
			continue
		}
		if sf == nil {
			c.Fail(rule, "node-only|"+k, c.P.Pos(nf.Pos()), "function "+k+" of the instance package has no sibling in ssv-spec/qbft, is not an allow-listed node-only function and is not a private helper of a compared function: protocol logic without a reference")
			continue
		}
		pairs++
		c06Compare(c, k, nf, sf)
	}
	// explicit pairs outside the instance package
	for _, x := range []struct{ name, node, spec string }{
		{"types.verifybyoperators", ssv + "protocol/v2/types.VerifyByOperators", spec + "types.Signature.VerifyByOperators"},
	} {
		nf, sf := fn(c, rule, x.node), fn(c, rule, x.spec)
		if nf != nil && sf != nil {
			pairs++
			c06Compare(c, x.name, nf, sf)
		}
	}
	// D1: bumpToRound is exactly "State.Round = x" plus metrics
	if bf := nodeFns["instance.bumptoround"]; bf != nil {
		v := (&c06Builder{c, "instance.bumptoround", "spec"}).build(bf)
		var ks []string
		for k := range v.sites {
			ks = append(ks, k)
		}
		for k := range v.calls {
			ks = append(ks, "call "+k)
		}
		sort.Strings(ks)
		c.Decide(len(ks) == 1 && ks[0] == "store p0.State.Round := p1", rule, "deviation D1|bumpToRound body", c.P.Pos(bf.Pos()), "only effect: State.Round = round", "bumpToRound does more than State.Round = round: "+strings.Join(ks, "; "))
	} else {
		c.Undischarged(rule, "deviation D1|bumpToRound body", "bumpToRound not found")
	}
	c.Min(rule, pairs, 40, "function pairs instance ↔ ssv-spec/qbft")
	c.Count("pairs_compared", pairs)
}

func c06FnKey(f *ssa.Function) string {
	k := strings.ToLower(f.Name())
	if r := f.Signature.Recv(); r != nil {
		t := r.Type()
		if p, ok := t.(*types.Pointer); ok {
			t = p.Elem()
		}
		if n, ok := t.(*types.Named); ok {
			k = strings.ToLower(n.Obj().Name()) + "." + k
		}
	}
	return k
}

func c06Compare(c *core.Ctx, name string, nf, sf *ssa.Function) {
	c06CompareRule(c, "C06-R1", name, nf, sf)
}

func c06CompareRule(c *core.Ctx, rule, name string, nf, sf *ssa.Function) {
	_, nk := c06Bind(nf)
	_, sk := c06Bind(sf)
	where := c.P.Pos(nf.Pos())
	if nk != sk {
		c.Fail(rule, "pair "+name+"|signature", where, fmt.Sprintf("after dropping loggers the node function has %d parameters, the reference %d", nk, sk))
		return
	}
	nv, sv := (&c06Builder{c, name, "node"}).build(nf), (&c06Builder{c, name, "spec"}).build(sf)
	c.Count("exits_compared", nv.nExits)
	c.Count("effect_sites_compared", nv.nSites)
	debug := os.Getenv("VERIF_C06_DEBUG") != "" && (os.Getenv("VERIF_C06_DEBUG") == "all" || os.Getenv("VERIF_C06_DEBUG") == name)
	if debug {
		fmt.Fprintf(os.Stderr, "==== %s\n", name)
	}
	// 1. accept exits and 2. effect sites: keyed multisets of fact lists
	for _, part := range []struct {
		what string
		n, s map[string][]string
	}{{"accept exits", nv.exits, sv.exits}, {"effect sites", nv.sites, sv.sites}} {
		var diffs []string
		keys := map[string]bool{}
		for k := range part.n {
			keys[k] = true
		}
		for k := range part.s {
			keys[k] = true
		}
		var ks []string
		for k := range keys {
			ks = append(ks, k)
		}
		sort.Strings(ks)
		for _, k := range ks {
			nl, sl := part.n[k], part.s[k]
			if len(nl) != len(sl) {
				side, cnt := "node", fmt.Sprintf("%d vs %d", len(nl), len(sl))
				if len(nl) < len(sl) {
					side = "spec"
				}
				item := fmt.Sprintf("%s-only %s: %s (%s)", side, part.what, k, cnt)
				if !c06Accepted(c, name, side, item, where) {
					diffs = append(diffs, item)
				}
				continue
			}
			sort.Strings(nl)
			sort.Strings(sl)
			for i := range nl {
				if nl[i] == sl[i] {
					continue
				}
				no, so := lineDiff(nl[i], sl[i])
				for _, x := range no {
					if item := "at " + k + ": node-only fact " + x; !c06Accepted(c, name, "node", item, where) {
						diffs = append(diffs, item)
					}
				}
				for _, x := range so {
					if item := "at " + k + ": reference-only fact " + x; !c06Accepted(c, name, "spec", item, where) {
						diffs = append(diffs, item)
					}
				}
			}
		}
		if debug {
			for _, k := range ks {
				fmt.Fprintf(os.Stderr, "  [%s] %s  node=%d spec=%d\n", part.what, k, len(part.n[k]), len(part.s[k]))
			}
		}
		c.Decide(len(diffs) == 0, rule, "pair "+name+"|"+part.what, where, fmt.Sprintf("%d keys agree", len(ks)),
			fmt.Sprintf("the node's %s and its ssv-spec sibling differ in %s: %s", name, part.what, strings.Join(diffs, " ;; ")))
	}
	// 3. branch conditions (polarity-free atoms) and 4. call multiset
	{
		var diffs []string
		keys := map[string]bool{}
		for k := range nv.conds {
			keys[k] = true
		}
		for k := range sv.conds {
			keys[k] = true
		}
		for k := range keys {
			if nv.conds[k] == sv.conds[k] {
				continue
			}
			side := "node"
			if nv.conds[k] < sv.conds[k] {
				side = "spec"
			}
			if item := fmt.Sprintf("%s-only %s (%d vs %d)", side, k, nv.conds[k], sv.conds[k]); !c06Accepted(c, name, side, item, where) {
				diffs = append(diffs, item)
			}
		}
		sort.Strings(diffs)
		c.Decide(len(diffs) == 0, rule, "pair "+name+"|branch conditions", where, fmt.Sprintf("%d distinct tests agree", len(keys)),
			fmt.Sprintf("the node's %s and its ssv-spec sibling branch on different conditions: %s", name, strings.Join(diffs, " ;; ")))
	}
	var diffs []string
	keys := map[string]bool{}
	for k := range nv.calls {
		keys[k] = true
	}
	for k := range sv.calls {
		keys[k] = true
	}
	for k := range keys {
		if nv.calls[k] == sv.calls[k] {
			continue
		}
		side := "node"
		if nv.calls[k] < sv.calls[k] {
			side = "spec"
		}
		if item := fmt.Sprintf("%s-only call %s (%d vs %d)", side, k, nv.calls[k], sv.calls[k]); !c06Accepted(c, name, side, item, where) {
			diffs = append(diffs, item)
		}
	}
	sort.Strings(diffs)
	c.Decide(len(diffs) == 0, rule, "pair "+name+"|calls", where, fmt.Sprintf("%d distinct calls agree", len(keys)),
		fmt.Sprintf("the node's %s and its ssv-spec sibling make different calls: %s", name, strings.Join(diffs, " ;; ")))
}

func clipN(s string, n int) string {
	if len(s) > n {
		return s[:n] + "…"
	}
	return s
}

func lineDiff(a, b string) (onlyA, onlyB []string) {
	as, bs := map[string]bool{}, map[string]bool{}
	for _, l := range strings.Split(a, "\n") {
		as[l] = true
	}
	for _, l := range strings.Split(b, "\n") {
		bs[l] = true
	}
	for l := range as {
		if !bs[l] && l != "" {
			onlyA = append(onlyA, l)
		}
	}
	for l := range bs {
		if !as[l] && l != "" {
			onlyB = append(onlyB, l)
		}
	}
	sort.Strings(onlyA)
	sort.Strings(onlyB)
	return
}

// c06Accepted: the item is a frozen deviation.
func c06Accepted(c *core.Ctx, pair, side, item, where string) bool {
	for _, d := range c06Deviations {
		if (d.Pair == "*" || d.Pair == pair) && d.Side == side && d.Pat.MatchString(item) {
			c.Count("deviations_accepted", 1)
			return true
		}
	}
	return false
}

// ---------------------------------------------------------------- C06-R2
// Reader sites of the message containers in the instance package, classified
// by the round they query. Key: function|method|round-argument form.
// class: "cur"  — State.Round;
//
//	"msg"  — the round of the message being handled (≥ State.Round by BaseMsgValidation);
//	"prep" — State.LastPreparedRound;
//	"all"  — iterates every round and filters by > State.Round itself.
var c06Readers = map[string]struct{ container, class string }{
	"Instance.UponCommit|AddFirstMsgForSignerAndRound|p1":                               {"Commit", "msg"},
	"commitQuorumForRoundRoot|LongestUniqueSignersForRoundAndRoot|p3":                   {"Commit", "msg"},
	"Instance.uponPrepare|MessagesForRound|p0.State.Round":                              {"Prepare", "cur"},
	"Instance.uponPrepare|AddFirstMsgForSignerAndRound|p1":                              {"Prepare", "msg"},
	"getRoundChangeJustification|MessagesForRound|p0.LastPreparedRound":                 {"Prepare", "prep"},
	"Instance.uponProposal|AddFirstMsgForSignerAndRound|p1":                             {"Propose", "msg"},
	"Instance.uponRoundChange|MessagesForRound|p2.Message.Round":                        {"RoundChange", "msg"},
	"Instance.uponRoundChange|AddFirstMsgForSignerAndRound|p2":                          {"RoundChange", "msg"},
	"Instance.uponRoundChange|MessagesForRound|p0.State.Round":                          {"RoundChange", "cur"},
	"hasReceivedPartialQuorum|AllMessaged|":                                             {"RoundChange", "all"},
	"hasReceivedProposalJustificationForLeadingRound|MessagesForRound|p3.Message.Round": {"RoundChange", "msg"},
}

// what compact may pass as the trimming bound for a container whose readers
// are of the given classes: every reader's round must be ≥ the bound.
func c06BoundOK(bound string, classes map[string]bool) (bool, string) {
	switch bound {
	case "p0.Round":
		if classes["prep"] {
			return false, "a reader queries State.LastPreparedRound, which may be below State.Round"
		}
		return true, ""
	case "p0.LastPreparedRound":
		return true, "" // LastPreparedRound ≤ Round: retains everything a cur/msg/prep reader can ask for
	}
	return false, "the bound is neither State.Round nor State.LastPreparedRound"
}

func c06Retention(c *core.Ctx) {
	const rule = "C06-R2"
	// 1. reader table
	seen := map[string]bool{}
	classes := map[string]map[string]bool{}
	for _, f := range c.P.SourceFuncs(instPkg) {
		top := topFunc(f)
		name := strings.TrimPrefix(ens.SSAFuncName(top), "ssv/protocol/v2/qbft/instance.")
		lname := strings.ToLower(name)
		if strings.HasPrefix(lname, "compact") {
			continue
		}
		bind, _ := c06Bind(top)
		a := c.E.Analyze(f)
		for _, b := range f.Blocks {
			for _, in := range b.Instrs {
				cv, ok := in.(*ssa.Call)
				if !ok {
					continue
				}
				lbl := callLabel(cv.Common())
				if !strings.HasPrefix(lbl, "ssv-spec/qbft.MsgContainer.") {
					continue
				}
				if feedsOnlyNoise(cv, 0) {
					continue
				}
				method := strings.TrimPrefix(lbl, "ssv-spec/qbft.MsgContainer.")
				arg := ""
				if len(cv.Common().Args) > 1 {
					n := a.D.D(cv.Common().Args[1])
					if f == top || len(f.Params) == 0 {
						n = n.Subst(bind)
					}
					arg = n.String()
				}
				key := name + "|" + method + "|" + arg
				r, known := c06Readers[key]
				if !seen[key] {
					c.Decide(known, rule, "reader "+key, c.P.Pos(cv.Pos()), "classified: "+r.container+" container, class "+r.class,
						"container reader "+key+" is not in the classified reader table: which rounds it can query decides what compaction must retain")
				}
				seen[key] = true
				if known {
					if classes[r.container] == nil {
						classes[r.container] = map[string]bool{}
					}
					classes[r.container][r.class] = true
				}
			}
		}
	}
	for k := range c06Readers {
		if !seen[k] {
			c.Undischarged(rule, "reader "+k, "classified reader site no longer found: the table is stale")
		}
	}
	// the "msg" class rests on the past-round guard
	ensures(c, rule, instPkg+".(*Instance).BaseMsgValidation", "err=nil", []Req{
		{"msg-round-not-past", "le(p0.State.Round, p1.Message.Round)", "handlers may query the handled message's round only because it is never below State.Round"},
	})
	atStores(c, rule, instPkg+".(*Instance).uponPrepare", spec+"qbft.State.LastPreparedRound", nil)
	// 2. compact: per container the bound and the clear flag
	f := fn(c, rule, instPkg+".compact")
	if f != nil {
		a := c.E.Analyze(f)
		n := 0
		for _, b := range f.Blocks {
			for _, in := range b.Instrs {
				st, ok := in.(*ssa.Store)
				if !ok {
					continue
				}
				addr := a.D.D(st.Addr).String()
				if !strings.HasPrefix(addr, "p0.") || !strings.HasSuffix(addr, "Container") {
					continue
				}
				n++
				cont := strings.TrimSuffix(strings.TrimPrefix(addr, "p0."), "Container")
				call, ok := st.Val.(*ssa.Call)
				if !ok || len(call.Common().Args) != 3 {
					c.Fail(rule, "compact|"+cont+"|shape", c.P.Pos(st.Pos()), "the container is not assigned the result of compactContainer(container, bound, clear)")
					continue
				}
				args := call.Common().Args
				src, bound, clr := a.D.D(args[0]).String(), a.D.D(args[1]).String(), a.D.D(args[2]).String()
				c.Decide(src == addr, rule, "compact|"+cont+"|same container", c.P.Pos(st.Pos()), src, "container "+addr+" is replaced by the compaction of "+src)
				ok2, why := c06BoundOK(bound, classes[cont])
				c.Decide(ok2, rule, "compact|"+cont+"|bound", c.P.Pos(st.Pos()), "bound "+bound+" ≤ every round a reader can query", "the "+cont+" container is trimmed below "+bound+": "+why)
				c.Decide(clr == "false", rule, "compact|"+cont+"|clear="+clr, c.P.Pos(st.Pos()), "never cleared",
					"the "+cont+" container is cleared entirely when "+clr+", including the current round's messages that its readers still count (the instance keeps processing messages after it decided)")
			}
		}
		c.Decide(n == 4, rule, "compact|containers", c.P.Pos(f.Pos()), "4 containers compacted", fmt.Sprintf("%d container assignments in compact", n))
	}
	// 3. the two trimmers delete / drop strictly below the bound only
	atCalls(c, rule, instPkg+".compactContainerEdit", "delete", []Req{
		{"strictly-below-bound", "lt(next(range(p0.Msgs))#1, p1)", "only rounds strictly below the bound may be deleted"},
	})
	if ff := fn(c, rule, instPkg+".compactContainerEdit"); ff != nil {
		c.Min(rule, len(callsIn(ff, "delete")), 1, "delete in compactContainerEdit")
	}
	atStores(c, rule, instPkg+".compactContainerEdit", spec+"qbft.MsgContainer.Msgs", []Req{
		{"only-when-clear", "T(p2)", "the whole map is replaced only on the clear branch"},
	})
	if ff := fn(c, rule, instPkg+".compactContainerCopy"); ff != nil {
		a := c.E.Analyze(ff)
		n := 0
		for _, b := range ff.Blocks {
			for _, in := range b.Instrs {
				mu, ok := in.(*ssa.MapUpdate)
				if !ok {
					continue
				}
				n++
				facts := a.FactsAt(mu)
				var cmp []string
				for k, f := range facts {
					switch f.Kind {
					case "lt", "le", "eq", "ne":
						if strings.Contains(k, "next(range(p0.Msgs))#1") {
							cmp = append(cmp, k)
						}
					}
				}
				sort.Strings(cmp)
				c.Decide(len(cmp) == 1 && cmp[0] == "le(p1, next(range(p0.Msgs))#1)", rule, "compactContainerCopy|keeps every round ≥ bound", c.P.Pos(mu.Pos()), "copied under exactly r ≥ bound",
					"a round is copied under "+strings.Join(cmp, " ∧ ")+" instead of exactly r ≥ bound: rounds at or above the bound can be dropped")
				kv := a.D.D(mu.Key).String() + " := " + a.D.D(mu.Value).String()
				c.Decide(kv == "next(range(p0.Msgs))#1 := next(range(p0.Msgs))#2", rule, "compactContainerCopy|copies the round's own messages", c.P.Pos(mu.Pos()), kv, "the copy stores "+kv)
			}
		}
		c.Decide(n == 1, rule, "compactContainerCopy|one copy site", c.P.Pos(ff.Pos()), "", fmt.Sprintf("%d map updates", n))
	}
	// 4. who compacts
	for _, w := range []struct {
		fn    string
		allow map[string]string
	}{
		{"Compact", map[string]string{"ssv/protocol/v2/ssv/runner.BaseRunner.compactInstanceIfNeeded": "after a decided or round-change message was processed",
			"ssv/protocol/v2/qbft/controller.Controller.getHighestInstance": "instance loaded from storage (stored compacted already)"}},
		{"CompactCopy", map[string]string{"ssv/ibft/storage.ibftStorage.SaveInstance": "the stored copy only"}},
		{"compact", map[string]string{"ssv/protocol/v2/qbft/instance.Compact": "", "ssv/protocol/v2/qbft/instance.CompactCopy": ""}},
	} {
		m, err := c.P.LookupFunc(instPkg + "." + w.fn)
		if err != nil {
			c.Undischarged(rule, "anchor:"+w.fn, err.Error())
			continue
		}
		whoMayCall(c, rule, "instance."+w.fn, mapOf(m), nil, w.allow)
	}
}
