package main

import (
	"flag"
	"fmt"
	"os"
	"runtime/debug"
	"sort"
	"strconv"
	"time"

	"verif/ssvcheck/internal/core"
	"verif/ssvcheck/internal/ens"
	"verif/ssvcheck/internal/load"
	"verif/ssvcheck/internal/rules"
)

func check(args []string) int {
	fs := flag.NewFlagSet("check", flag.ExitOnError)
	prop := fs.String("prop", "", "property id (C01…C18)")
	tier := fs.String("tier", "quick", "quick|thorough")
	dir := fs.String("dir", "/repo", "repository under analysis")
	verif := fs.String("verif", "/verif", "verif directory (evidence, known findings)")
	fs.Parse(args)
	t0 := time.Now()
	ck := rules.Registry[*prop]
	if ck == nil {
		var ids []string
		for k := range rules.Registry {
			ids = append(ids, k)
		}
		sort.Strings(ids)
		fmt.Fprintf(os.Stderr, "unknown property %q; have %v\n", *prop, ids)
		return 2
	}
	seed, _ := strconv.ParseInt(os.Getenv("VERIF_SEED"), 10, 64)
	pats := ck.Pkgs
	if *tier == "thorough" || len(pats) == 0 {
		pats = []string{"./..."}
	}
	ctx := &core.Ctx{Prop: *prop, Tier: *tier, Explain: ck.Explain, Trusted: ck.Trusted, Assume: ck.Assume, RuleText: ck.Rules}
	code := func() (code int) {
		defer func() {
			if r := recover(); r != nil {
				fmt.Printf("INFRA-FAILURE property=%s analyser panic: %v\n%s\n", *prop, r, debug.Stack())
				code = 2
			}
		}()
		p, err := load.Load(load.Config{Dir: *dir, Patterns: pats})
		if err != nil {
			fmt.Printf("INFRA-FAILURE property=%s load: %v\n", *prop, err)
			os.Remove(*verif + "/evidence/" + *prop + ".json")
			return 2
		}
		ctx.P = p
		ctx.E = ens.NewEngine(p)
		if ck.Setup != nil {
			ck.Setup(ctx.E)
		}
		ctx.Count("packages_loaded", len(p.All))
		ctx.Count("ssv_node_packages", len(p.NodePkgs))
		ck.Run(ctx)
		return ctx.Finish(*verif, seed, t0)
	}()
	return code
}
