package main

import (
	"encoding/json"
	"flag"
	"fmt"
	"os"
	"os/exec"
	"path/filepath"
	"runtime"
	"runtime/debug"
	"sort"
	"strconv"
	"strings"
	"sync"
	"time"

	"verif/ssvcheck/internal/core"
	"verif/ssvcheck/internal/ens"
	"verif/ssvcheck/internal/load"
	"verif/ssvcheck/internal/patch"
	"verif/ssvcheck/internal/rules"
)

func check(args []string) int {
	fs := flag.NewFlagSet("check", flag.ExitOnError)
	prop := fs.String("prop", "", "property id (C01…C18)")
	tier := fs.String("tier", "quick", "quick|thorough")
	dir := fs.String("dir", "/repo", "repository under analysis")
	verif := fs.String("verif", "/verif", "verif directory (evidence, known findings)")
	patchFile := fs.String("patch", "", "analyse the tree with this unified diff applied in memory (control runs)")
	fs.Parse(args)
	t0 := time.Now()
	ck := rules.Registry[*prop]
	if ck == nil {
		var ids []string
		for k := range rules.Registry {
			ids = append(ids, k)
		}
		sort.Strings(ids)
		fmt.Fprintf(os.Stderr, "unknown property %q; have %v\n", *prop, ids)
		return 2
	}
	seed, _ := strconv.ParseInt(os.Getenv("VERIF_SEED"), 10, 64)
	pats := ck.Pkgs
	if *tier == "thorough" || len(pats) == 0 {
		pats = []string{"./..."}
	}
	ctx := &core.Ctx{Prop: *prop, Tier: *tier, Explain: ck.Explain, Trusted: ck.Trusted, Assume: ck.Assume, RuleText: ck.Rules}
	code := func() (code int) {
		defer func() {
			if r := recover(); r != nil {
				fmt.Printf("INFRA-FAILURE property=%s analyser panic: %v\n%s\n", *prop, r, debug.Stack())
				code = 2
			}
		}()
		var overlay map[string][]byte
		if *patchFile != "" {
			ov, err := patch.Overlay(*dir, *patchFile)
			if err != nil {
				fmt.Printf("CONTROL-NOT-APPLICABLE property=%s %s: %v\n", *prop, *patchFile, err)
				return 3
			}
			overlay = ov
		}
		p, err := load.Load(load.Config{Dir: *dir, Patterns: pats, Overlay: overlay})
		if err != nil {
			fmt.Printf("INFRA-FAILURE property=%s load: %v\n", *prop, err)
			os.Remove(*verif + "/evidence/" + *prop + ".json")
			return 2
		}
		ctx.P = p
		ctx.E = ens.NewEngine(p)
		if ck.Setup != nil {
			ck.Setup(ctx.E)
		}
		if *tier == "thorough" && *patchFile == "" {
			if bad := runControls(ctx, *prop, *dir, *verif); bad > 0 {
				ctx.Infra = append(ctx.Infra, fmt.Sprintf("%d control(s) of the checker's self-validation changed outcome (see CONTROL-FAILED lines): the check has lost sensitivity or become noisy and its verdict is not to be trusted", bad))
			}
		}
		ctx.Count("packages_loaded", len(p.All))
		ctx.Count("ssv_node_packages", len(p.NodePkgs))
		ck.Run(ctx)
		return ctx.Finish(*verif, seed, t0)
	}()
	return code
}

type control struct {
	ID       string   `json:"id"`
	Patch    string   `json:"patch"`
	Property string   `json:"property"`
	Expect   string   `json:"expect"`
	Kind     string   `json:"kind"`
	OK       bool     `json:"ok"`
	Rules    []string `json:"rules"`
}

// runControls re-validates the checker itself (thorough tier): every recorded
// control of the property — a seeded breaking change, a reverted fix, a hand
// mutant (expected: the check fires) or a behaviour-preserving edit (expected:
// silence) — is applied to the current tree IN MEMORY (go/packages overlay;
// no file is written into the repository) and analysed by a child process.
// Returns the number of controls whose outcome differs from the recorded one.
func runControls(ctx *core.Ctx, prop, dir, verif string) int {
	root, _ := filepath.Abs(filepath.Join(filepath.Dir(os.Args[0]), ".."))
	b, err := os.ReadFile(filepath.Join(root, "controls", "index.json"))
	if err != nil {
		fmt.Printf("controls: none (%v)\n", err)
		return 0
	}
	var idx struct {
		Controls []control `json:"controls"`
	}
	if err := json.Unmarshal(b, &idx); err != nil {
		fmt.Printf("CONTROL-FAILED index.json: %v\n", err)
		return 1
	}
	var todo []control
	for _, c := range idx.Controls {
		if c.Property == prop && c.OK {
			todo = append(todo, c)
		}
	}
	if len(todo) == 0 {
		return 0
	}
	self, _ := os.Executable()
	type res struct {
		c    control
		code int
		out  string
	}
	results := make([]res, len(todo))
	// each child needs ≈ 1.7 GB and ≈ 2 cores; VERIF_CONTROL_JOBS overrides
	jobs := runtime.NumCPU() / 3
	if v, err := strconv.Atoi(os.Getenv("VERIF_CONTROL_JOBS")); err == nil && v > 0 {
		jobs = v
	}
	if jobs < 1 {
		jobs = 1
	}
	if jobs > 6 {
		jobs = 6
	}
	sem := make(chan struct{}, jobs)
	var wg sync.WaitGroup
	for i, c := range todo {
		wg.Add(1)
		go func(i int, c control) {
			defer wg.Done()
			sem <- struct{}{}
			defer func() { <-sem }()
			tmp, err := os.MkdirTemp("", "ssvcheck-control-")
			if err != nil {
				results[i] = res{c, 2, err.Error()}
				return
			}
			defer os.RemoveAll(tmp)
			if kf, err := os.ReadFile(filepath.Join(verif, "known_findings.json")); err == nil {
				os.WriteFile(filepath.Join(tmp, "known_findings.json"), kf, 0o644)
			}
			cmd := exec.Command(self, "check", "-prop", prop, "-tier", "quick", "-dir", dir, "-verif", tmp, "-patch", filepath.Join(root, c.Patch))
			out, _ := cmd.CombinedOutput()
			code := 0
			if cmd.ProcessState != nil {
				code = cmd.ProcessState.ExitCode()
			}
			results[i] = res{c, code, string(out)}
		}(i, c)
	}
	wg.Wait()
	bad := 0
	for _, r := range results {
		obs := map[int]string{0: "silent", 1: "kill", 2: "infra", 3: "not-applicable"}[r.code]
		switch {
		case r.code == 3:
			ctx.Count("controls_not_applicable", 1)
			fmt.Printf("control %-28s expect=%-6s not applicable to this tree (patch does not apply)\n", r.c.ID, r.c.Expect)
		case obs == r.c.Expect:
			ctx.Count("controls_"+r.c.Expect+"_confirmed", 1)
			fmt.Printf("control %-28s expect=%-6s observed=%s ok\n", r.c.ID, r.c.Expect, obs)
		default:
			bad++
			fmt.Printf("CONTROL-FAILED property=%s control=%s (%s) expected %s, observed %s\n", prop, r.c.ID, r.c.Kind, r.c.Expect, obs)
			if r.c.Expect == "silent" {
				for _, l := range strings.Split(r.out, "\n") {
					if strings.HasPrefix(l, "  violated") || strings.HasPrefix(l, "  undischarged") {
						fmt.Println("   " + l)
					}
				}
			}
		}
	}
	ctx.Count("controls_run", len(results))
	return bad
}
