package main

import (
	"flag"
	"fmt"
	"os"
	"strings"
	"time"

	"verif/ssvcheck/internal/ens"
	"verif/ssvcheck/internal/load"
	"verif/ssvcheck/internal/rules"
)

func main() {
	if len(os.Args) > 1 && os.Args[1] == "dump" {
		dump(os.Args[2:])
		return
	}
	if len(os.Args) > 1 && os.Args[1] == "check" {
		os.Exit(check(os.Args[2:]))
	}
	fmt.Fprintln(os.Stderr, "usage: ssvcheck dump -pkgs a,b -func spec [-exit err=nil]")
	os.Exit(2)
}

func dump(args []string) {
	fs := flag.NewFlagSet("dump", flag.ExitOnError)
	pkgs := fs.String("pkgs", "", "comma separated package patterns")
	fn := fs.String("func", "", "function spec(s), comma separated")
	exit := fs.String("exit", "err=nil", "exit spec")
	blocks := fs.Bool("blocks", false, "dump per-block facts")
	at := fs.String("at", "", "print facts before calls whose callee label matches this glob")
	each := fs.Bool("each", false, "print, per exit, the facts beyond the common ones")
	dir := fs.String("dir", "/repo", "repo dir")
	fs.Parse(args)
	t0 := time.Now()
	p, err := load.Load(load.Config{Dir: *dir, Patterns: strings.Split(*pkgs, ",")})
	if err != nil {
		fmt.Fprintln(os.Stderr, "load:", err)
		os.Exit(2)
	}
	fmt.Fprintf(os.Stderr, "loaded %d packages in %.1fs\n", len(p.All), time.Since(t0).Seconds())
	e := ens.NewEngine(p)
	e.TrueSwitch["ssv/protocol/v2/qbft.IConfig.VerifySignatures"] = true
	e.TrueSwitchPkgs["github.com/bloxapp/ssv/protocol/v2/qbft/instance"] = true
	for _, spec := range strings.Split(*fn, ",") {
		f, err := p.Func(spec)
		if err != nil {
			fmt.Fprintln(os.Stderr, err)
			os.Exit(2)
		}
		a := e.Analyze(f)
		if *blocks {
			fmt.Print(a.Dump())
		}
		if *at != "" {
			for _, cs := range rules.CallsIn(f, *at) {
				fa := e.Analyze(cs.Fn)
				fmt.Printf("-- call %s at %s in %s\n   node: %s\n", cs.Label, p.Pos(cs.Instr.Pos()), ens.SSAFuncName(cs.Fn), fa.D.Call(cs.Instr))
				fsx := fa.FactsAt(cs.Instr)
				for _, k := range fsx.Keys() {
					if !*blocks && (strings.HasPrefix(k, "called(") || strings.HasPrefix(k, "forall(called(")) {
						continue
					}
					fmt.Printf("   %s\n", k)
					if kx := fsx[k].KeyX(); kx != "" {
						fmt.Printf("     = %s\n", kx)
					}
				}
			}
			continue
		}
		facts, exits, err := a.Ens(*exit)
		if err != nil {
			fmt.Fprintln(os.Stderr, err)
			os.Exit(2)
		}
		fmt.Printf("== %s: %d exits matching %s\n", spec, len(exits), *exit)
		for _, ex := range exits {
			pred := ""
			if ex.Pred != nil {
				pred = fmt.Sprintf(" via block %d", ex.Pred.Index)
			}
			fmt.Printf("  exit %s%s (%d facts)\n", p.Pos(ex.Ret.Pos()), pred, len(ex.Facts))
		}
		if *each {
			for _, ex := range exits {
				fmt.Printf("  -- exit %s extra facts\n", p.Pos(ex.Ret.Pos()))
				for _, k := range ex.Facts.Keys() {
					if _, common := facts[k]; !common && !strings.HasPrefix(k, "called(") && !strings.Contains(k, "opaque:cycle") {
						fmt.Printf("     %s\n", k)
					}
				}
			}
		}
		for _, k := range facts.Keys() {
			via := facts[k].Via
			if via != "" {
				via = "   [via " + via + "]"
			}
			fmt.Printf("  %s%s\n", k, via)
		}
	}
}
