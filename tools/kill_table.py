#!/usr/bin/env python3
"""Rewrites the kill table of DESIGN.md section 10.6 from controls/index.json and seeded/*/meta.json."""
import json, os, re
root = os.path.dirname(os.path.dirname(os.path.abspath(__file__)))
idx = json.load(open(os.path.join(root, 'controls', 'index.json')))['controls']
rows = []
for e in idx:
    if e['kind'] not in ('seeded', 'reverted-fix'):
        continue
    if e['kind'] == 'seeded':
        m = json.load(open(os.path.join(root, 'seeded', e['id'], 'meta.json')))
        summ = ' '.join(str(m.get('summary', '')).split())
        if len(summ) > 150:
            summ = summ[:150] + '…'
        summ = summ.replace('|', '\\|')
    else:
        summ = 'reverse patch of the `fix:` commit (the original defect returns)'
    caught = ', '.join(e['rules']) if e['observed'] == 'kill' else '**' + e['observed'] + '**'
    rows.append(f"| {e['id']} | {e['property']} | {caught} | {summ} |")
p = os.path.join(root, 'DESIGN.md')
s = open(p).read()
head = '| change | property | caught by | what the change does |\n|---|---|---|---|\n'
i = s.index(head) + len(head)
j = s.index('\nHand controls:', i)
s = s[:i] + '\n'.join(rows) + '\n' + s[j:]
open(p, 'w').write(s)
print(len(rows), 'rows')
