#!/bin/bash
# usage: tools/try_mutant.sh <patch.diff> <prop> [<prop>...]
# Applies the patch to a scratch worktree of /repo (never /repo itself), runs the
# given checks against it with evidence redirected to a temp dir, removes the worktree.
set -u
patch="$1"; shift
wt=$(mktemp -d /tmp/mw.XXXXXX); out=$(mktemp -d /tmp/mwout.XXXXXX)
rmdir "$wt"
git -C /repo worktree add -q --detach "$wt" HEAD || exit 2
if ! git -C "$wt" apply "$patch"; then echo "PATCH DOES NOT APPLY"; git -C /repo worktree remove --force "$wt"; exit 2; fi
cp /verif/known_findings.json "$out/" 2>/dev/null
rc=0
for p in "$@"; do
  VERIF_REPO="$wt" VERIF_OUT="$out" /verif/check "$p" quick | cut -c1-600 | grep -v "^  discharged" ; r=${PIPESTATUS[0]}
  echo "== $p exit=$r"
  [ "$r" != 0 ] && rc=1
done
git -C /repo worktree remove --force "$wt"; rm -rf "$out"
exit $rc
