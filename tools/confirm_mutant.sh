#!/bin/bash
# usage: tools/confirm_mutant.sh <tag>   (worktree /tmp/mut/<tag> with _out/patch.diff, _out/meta.json demo_cmd)
# Confirms: demo passes on the unmodified tree, fails with the patch. Leaves worktree clean (unmodified).
set -u
tag="$1"; wt=/tmp/mut/$tag
export GOFLAGS=-mod=mod GOPROXY=off GOSUMDB=off GOTOOLCHAIN=local; unset GOWORK
cd "$wt" || exit 2
git checkout -q -- . ; git clean -fdq -e _out -e _foreign_popped_stash.diff
cmd=$(python3 -c "import json;print(json.load(open('_out/meta.json'))['demo_cmd'])")
echo "--- base tree"; ( eval "$cmd" ) > _out/confirm_base.log 2>&1; b=$?; tail -3 _out/confirm_base.log
git apply _out/patch.diff || { echo "patch does not apply"; exit 2; }
echo "--- with patch"; ( eval "$cmd" ) > _out/confirm_mut.log 2>&1; m=$?; grep -E "^(--- FAIL|FAIL|ok|panic)" _out/confirm_mut.log | head -8
git checkout -q -- . ; git clean -fdq -e _out
echo "RESULT $tag base_exit=$b mutant_exit=$m"
