#!/bin/bash
# runs every claimed check (quick) on the unchanged tree; all must exit 0
cd /verif; ./check --build || exit 2
fail=0
for p in $(python3 -c "import json;print(' '.join(c['property_id'] for c in json.load(open('MANIFEST.json'))['checks']))"); do
  out=$(./check $p quick 2>&1); rc=$?
  echo "$out" | grep -E "^property=|^KNOWN-FINDING|^VIOLATION|^INFRA" | head -5
  if [ $rc != 0 ]; then fail=1; echo "$out" | grep -E "violated|undischarged" | head -5 | cut -c1-400; fi
done
python3-vt - <<'P'
import json,jsonschema,glob
s=json.load(open('/root/.vp/EVIDENCE.schema.json'))
m=json.load(open('/verif/MANIFEST.json'))
jsonschema.validate(m,json.load(open('/root/.vp/MANIFEST.schema.json')))
for c in m['checks']:
    jsonschema.validate(json.load(open(c['evidence_file'])),s)
print('manifest + evidence valid:',len(m['checks']))
P
exit $fail
