#!/usr/bin/env python3
import json,sys,os,shutil,subprocess
tag=sys.argv[1]; src=f'/tmp/mut/{tag}/_out'; dst=f'/verif/seeded/{tag}'
os.makedirs(dst,exist_ok=True)
shutil.copy(f'{src}/patch.diff',dst)
if os.path.isdir(f'{dst}/demo'): shutil.rmtree(f'{dst}/demo')
shutil.copytree(f'{src}/demo',f'{dst}/demo')
m=json.load(open(f'{src}/meta.json'))
m['demo_cmd']=m['demo_cmd'].replace(f'/tmp/mut/{tag}/_out/overlay/overlay.json','/verif/seeded/_overlay/overlay.json').replace('_out/overlay/overlay.json','/verif/seeded/_overlay/overlay.json').replace('_out/demo/', f'/verif/seeded/{tag}/demo/')
def tail(p):
    try: return open(p).read()[-1500:]
    except Exception: return ''
m['confirmed_by_main']={
  'what_i_ran':'tools/confirm_mutant.sh: in a scratch worktree of /repo HEAD, ran demo_cmd on the unmodified tree (must pass) and again after `git apply patch.diff` (must fail)',
  'base_log_tail':tail(f'{src}/confirm_base.log'),
  'mutant_log_tail':tail(f'{src}/confirm_mut.log'),
}
json.dump(m,open(f'{dst}/meta.json','w'),indent=1)
print('saved',dst)
