#!/usr/bin/env python3
"""Regenerates MANIFEST.json from tools/claims.json (per-property text) so the
manifest stays valid and consistent with what ./check implements."""
import json, os, sys
root = os.path.dirname(os.path.dirname(os.path.abspath(__file__)))
claims = json.load(open(os.path.join(root, 'tools', 'claims.json')))
props = [json.loads(l) for l in open(os.path.join(root, 'properties.jsonl'))]
checks, na = [], []
for p in props:
    pid = p['id']
    c = claims.get(pid)
    if not c or not c.get('claimed'):
        na.append({'property_id': pid, 'reason': (c or {}).get('reason', 'no static check registered yet')})
        continue
    checks.append({
        'property_id': pid,
        'quick_cmd': f'./check {pid} quick',
        'thorough_cmd': f'./check {pid} thorough',
        'evidence_file': f'/verif/evidence/{pid}.json',
        'replay_cmd_template': f'./check {pid} --explain {{path}}',
        'engine': c.get('engine', 'ssvcheck'),
        'level_claimed': {'category': 'other', 'text': c['text'], 'design_ref': c.get('design_ref', f'DESIGN.md §4 {pid}')},
        'level_note': c['note'],
        'technique': c['technique'],
    })
m = {
    'version': 1,
    'setup_cmd': './check --build',
    'hooks': {
        'guard': 'verif',
        'enable': 'none needed: the checker analyses /repo from source through go/packages; no instrumentation is compiled into ssv',
        'baseline_off_cmd': "cd /repo && GOFLAGS=-mod=mod go test -vet=off -count=1 -timeout 25m ./... ; cd /repo/e2e && go test -vet=off -count=1 -timeout 25m ./...",
        'source_commits': [],
        'add_only': True,
    },
    'engines': [
        {'name': 'ssvcheck', 'path': 'cmd/ssvcheck', 'serves_properties': [c['property_id'] for c in checks],
         'kind_free_text': 'custom static analyser over go/packages + go/ssa of /repo: must-hold fact dataflow with interprocedural summaries (E1), who-may-call / who-may-write / provenance (E2), table and shape agreement (E3), panic-site obligations (E4), spec sibling conformance (E5), list/cursor typestate (E6)'},
    ],
    'checks': checks,
    'not_applicable': na,
    'notes': 'All claims are level "other": each check decides named structural necessary conditions of its property from the type-checked source of /repo on every run (see DESIGN.md); no registered check executes ssv code, tests, models or solvers.',
}
json.dump(m, open(os.path.join(root, 'MANIFEST.json'), 'w'), indent=1)
print('checks:', [c['property_id'] for c in checks], 'not_applicable:', [n['property_id'] for n in na])
