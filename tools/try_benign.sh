#!/bin/bash
# usage: tools/try_benign.sh <tag> <prop> [<prop>...]
# For each /tmp/mut/<tag>/_out/b*.diff: analyse /repo with the edit applied in memory by the
# given checks; a silent check (exit 0) is the expected outcome. Silent edits are saved as
# controls/<prop>/benign/<tag>_<n>.diff (first listed property).
set -u
tag="$1"; shift
first="$1"
export GOFLAGS=-mod=mod GOPROXY=off GOSUMDB=off GOTOOLCHAIN=local; unset GOWORK
cd /verif
[ -x bin/ssvcheck ] || ./check --build
for d in /tmp/mut/$tag/_out/b*.diff; do
  n=$(basename "$d" .diff)
  allsilent=1
  for p in "$@"; do
    out=$(mktemp -d /tmp/bn.XXXXXX); cp known_findings.json "$out/"
    ./bin/ssvcheck check -prop "$p" -tier quick -dir /repo -verif "$out" -patch "$d" > "$out/log" 2>&1; rc=$?
    if [ $rc -ne 0 ]; then
      allsilent=0
      echo "## $tag/$n $p exit=$rc"; grep -E "^  (violated|undischarged)|INFRA|CONTROL" "$out/log" | cut -c1-700
    else
      echo "## $tag/$n $p silent"
    fi
    rm -rf "$out"
  done
  if [ $allsilent = 1 ]; then mkdir -p controls/$first/benign; cp "$d" controls/$first/benign/${tag}_$n.diff; fi
done
