#!/bin/bash
# usage: tools/confirm2.sh <tag> <n>   (worktree /tmp/mut/<tag> with _out/c<n>/{patch.diff,meta.json,demo/})
# Confirms: demo passes on the unmodified tree, fails with the patch; saves to /verif/seeded/<tag><n>.
set -u
tag="$1"; n="$2"; wt=/tmp/mut/$tag; o=$wt/_out/c$n
export GOFLAGS=-mod=mod GOPROXY=off GOSUMDB=off GOTOOLCHAIN=local; unset GOWORK
cd "$wt" || exit 2
git checkout -q -- . ; git clean -fdq -e _out
cmd=$(python3 -c "import json;print(json.load(open('$o/meta.json'))['demo_cmd'])")
( eval "$cmd" ) > $o/confirm_base.log 2>&1
git checkout -q -- . ; git clean -fdq -e _out
git apply $o/patch.diff || { echo "RESULT $tag c$n patch does not apply"; exit 2; }
( eval "$cmd" ) > $o/confirm_mut.log 2>&1
git checkout -q -- . ; git clean -fdq -e _out
fb=$(grep -c "^--- FAIL\|^FAIL\|^panic:" $o/confirm_base.log); fm=$(grep -c "^--- FAIL\|^FAIL\|^panic:" $o/confirm_mut.log)
okb=$(grep -c "^ok \|^--- PASS\|^PASS" $o/confirm_base.log)
echo "RESULT $tag c$n base_fail_lines=$fb base_ok_lines=$okb mutant_fail_lines=$fm"
if [ "$fb" = 0 ] && [ "$okb" != 0 ] && [ "$fm" != 0 ]; then
  python3 - "$tag" "$n" <<'PY'
import json,sys,os,shutil
tag,n=sys.argv[1],sys.argv[2]
src=f'/tmp/mut/{tag}/_out/c{n}'; dst=f'/verif/seeded/{tag}{n}'
os.makedirs(dst,exist_ok=True)
shutil.copy(f'{src}/patch.diff',dst)
if os.path.isdir(f'{dst}/demo'): shutil.rmtree(f'{dst}/demo')
if os.path.isdir(f'{src}/demo'): shutil.copytree(f'{src}/demo',f'{dst}/demo')
m=json.load(open(f'{src}/meta.json'))
m['demo_cmd']=m['demo_cmd'].replace(f'_out/c{n}/demo/', f'/verif/seeded/{tag}{n}/demo/').replace('/tmp/mut/_overlay/overlay.json','/verif/seeded/_overlay/overlay.json')
def tail(p):
    try: return open(p).read()[-1500:]
    except Exception: return ''
m['confirmed_by_main']={'what_i_ran':'tools/confirm2.sh: in the scratch worktree, demo_cmd on the unmodified tree (passes) and again after git apply patch.diff (fails)','base_log_tail':tail(f'{src}/confirm_base.log'),'mutant_log_tail':tail(f'{src}/confirm_mut.log')}
json.dump(m,open(f'{dst}/meta.json','w'),indent=1)
print('saved',dst)
PY
else
  echo "NOT CONFIRMED $tag c$n"; tail -5 $o/confirm_base.log; tail -5 $o/confirm_mut.log
fi
