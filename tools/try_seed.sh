#!/bin/bash
# usage: tools/try_seed.sh <tag> <n> <prop> [<prop>...]
# Analyses /repo with /tmp/mut/<tag>/_out/c<n>/patch.diff applied in memory by the given checks.
set -u
tag="$1"; n="$2"; shift 2
export GOFLAGS=-mod=mod GOPROXY=off GOSUMDB=off GOTOOLCHAIN=local; unset GOWORK
cd /verif
d=/tmp/mut/$tag/_out/c$n/patch.diff
for p in "$@"; do
  out=$(mktemp -d /tmp/sd.XXXXXX); cp known_findings.json "$out/"
  ./bin/ssvcheck check -prop "$p" -tier quick -dir /repo -verif "$out" -patch "$d" > "$out/log" 2>&1; rc=$?
  echo "## $tag c$n $p exit=$rc"; grep -E "^  (violated|undischarged)|INFRA|CONTROL" "$out/log" | cut -c1-500 | head -6
  rm -rf "$out"
done
